//go:build verif && (comp_all || comp_bits)

package nebula

import (
	"log/slog"
)

// VerifBits exposes the replay window to the verification harness.
type VerifBits struct{ b *Bits }

// VerifNewBits calls NewBits; ok=false reports the panic on a length that is not a power of two.
func VerifNewBits(length uint64) (v *VerifBits, ok bool) {
	defer func() {
		if recover() != nil {
			v, ok = nil, false
		}
	}()
	return &VerifBits{b: NewBits(length)}, true
}

var verifDiscardLogger = slog.New(slog.DiscardHandler)

func (v *VerifBits) Check(i uint64) bool  { return v.b.Check(verifDiscardLogger, i) }
func (v *VerifBits) Update(i uint64) bool { return v.b.Update(verifDiscardLogger, i) }
func (v *VerifBits) Current() uint64      { return v.b.current }
func (v *VerifBits) Length() uint64       { return v.b.length }
func (v *VerifBits) Mask() uint64         { return v.b.lengthMask }
func (v *VerifBits) Words() []uint64      { return append([]uint64(nil), v.b.bits...) }

// T1 constants, evaluated by the Go compiler from the working tree.
const (
	VerifReplayWindow        uint64 = ReplayWindow
	VerifRejectAfterMessages uint64 = RejectAfterMessages
	VerifBitsPerWord         uint64 = bitsPerWord
)

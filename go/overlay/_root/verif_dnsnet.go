//go:build verif && (comp_all || comp_dns)

package nebula

// Verification shim for C44, second part: a small network of REAL nodes (real PKI with signed v2 certificates, real
// HandshakeManager / HostMap / Interface, recording sockets wired to each other). The node under test is a lighthouse
// with the real DNS responder attached (Interface.dnsServer); handshakes run through the code the node itself uses
// (StartHandshake, handleOutbound, HandleIncoming -> beginHandshake / continueHandshake, CheckAndComplete / Complete),
// in both directions. Nothing here re-implements nebula logic.

import (
	"context"
	"fmt"
	"log/slog"
	"net/netip"
	"sort"
	"time"

	"github.com/rcrowley/go-metrics"
	"github.com/slackhq/nebula/cert"
	"github.com/slackhq/nebula/cert_test"
	"github.com/slackhq/nebula/config"
	"github.com/slackhq/nebula/header"
	"github.com/slackhq/nebula/udp"
)

type verifDNSPkt struct {
	b  []byte
	to netip.AddrPort
}

type verifDNSConn struct {
	udp.NoopConn
	pkts []verifDNSPkt
}

func (c *verifDNSConn) WriteTo(b []byte, addr netip.AddrPort) error {
	c.pkts = append(c.pkts, verifDNSPkt{b: append([]byte(nil), b...), to: addr})
	return nil
}

func (c *verifDNSConn) WriteBatch(bufs [][]byte, addrs []netip.AddrPort) (int, error) {
	for i := range bufs {
		c.WriteTo(bufs[i], addrs[i])
	}
	return len(bufs), nil
}

type verifDNSNode struct {
	name  string
	addrs []netip.Addr
	under netip.AddrPort
	crt   cert.Certificate
	pool  *cert.CAPool
	hm    *HostMap
	hsm   *HandshakeManager
	f     *Interface
	conn  *verifDNSConn
}

type VerifDNSNet struct {
	*VerifDNS // the node under test's responder (Query works on it)
	l         *slog.Logger
	ca, ca2   cert.Certificate
	key, key2 []byte
	nodes     []*verifDNSNode // nodes[0] is the node under test
}

func verifDNSMust(err error) {
	if err != nil {
		panic(fmt.Sprintf("verif dnsnet: %v", err))
	}
}

func (n *VerifDNSNet) newNode(name string, addrs []netip.Addr, under netip.AddrPort, foreignCA bool) *verifDNSNode {
	l := n.l
	before, after := time.Now().Add(-time.Hour), time.Now().Add(48*time.Hour)
	var nets []netip.Prefix
	for _, a := range addrs {
		bits := 16
		if a.Is6() {
			bits = 64
		}
		nets = append(nets, netip.PrefixFrom(a, bits))
	}
	pub, priv := cert_test.X25519Keypair()
	ca, key := n.ca, n.key
	if foreignCA {
		ca, key = n.ca2, n.key2
	}
	t := &cert.TBSCertificate{Version: cert.Version2, Curve: cert.Curve_CURVE25519, Name: name, Networks: nets,
		NotBefore: time.Unix(before.Unix(), 0), NotAfter: time.Unix(after.Unix(), 0), PublicKey: pub}
	crt, err := t.Sign(ca, cert.Curve_CURVE25519, key)
	verifDNSMust(err)
	cs, err := newCertState(cert.Version2, nil, crt, false, cert.Curve_CURVE25519, priv, "aes")
	verifDNSMust(err)
	pool := cert.NewCAPool()
	verifDNSMust(pool.AddCA(n.ca)) // every node trusts only the first CA
	if foreignCA {
		verifDNSMust(pool.AddCA(n.ca2)) // (the foreign node itself trusts both, so that it answers)
	}
	pki := &PKI{l: l}
	pki.cs.Store(cs)
	pki.caPool.Store(pool)

	hm := newHostMap(l)
	pr := []netip.Prefix{}
	hm.preferredRanges.Store(&pr)
	lh := &LightHouse{l: l, amLighthouse: true, addrMap: map[netip.Addr]*RemoteList{}, queryChan: make(chan netip.Addr, 16)}
	lhs := []netip.Addr{}
	static := map[netip.Addr]struct{}{}
	lh.localAddrsFn = func(*LocalAllowList) []netip.Addr { return nil }
	lh.lighthouses.Store(&lhs)
	lh.staticList.Store(&static)
	lh.remoteAllowList.Store(&RemoteAllowList{})
	conf := config.NewC(l)
	verifDNSMust(conf.LoadString("relay:\n  use_relays: false\n"))
	conn := &verifDNSConn{}
	hsm := NewHandshakeManager(l, hm, lh, conn, defaultHandshakeConfig)
	fw := NewFirewall(l, 12*time.Minute, 3*time.Minute, 10*time.Minute, cs.GetDefaultCertificate())
	f := &Interface{
		hostMap: hm, outside: conn, writers: []udp.Conn{conn}, handshakeManager: hsm, lightHouse: lh, pki: pki, firewall: fw,
		myVpnAddrs: cs.myVpnAddrs, myVpnAddrsTable: cs.myVpnAddrsTable, myVpnNetworks: cs.myVpnNetworks, myVpnNetworksTable: cs.myVpnNetworksTable,
		relayManager:        NewRelayManager(context.Background(), l, hm, conf),
		metricHandshakes:    metrics.NilHistogram{},
		cachedPacketMetrics: &cachedPacketMetrics{sent: metrics.NilCounter{}, dropped: metrics.NilCounter{}},
		l:                   l,
	}
	hsm.f = f
	nd := &verifDNSNode{name: name, addrs: addrs, under: under, crt: crt, pool: pool, hm: hm, hsm: hsm, f: f, conn: conn}
	n.nodes = append(n.nodes, nd)
	return nd
}

// VerifNewDNSNet: the node under test (a lighthouse serving DNS) with its certificate name and overlay addresses.
func VerifNewDNSNet(selfName string, selfAddrs []netip.Addr, under netip.AddrPort) *VerifDNSNet {
	l := slog.New(slog.DiscardHandler)
	n := &VerifDNSNet{l: l}
	before, after := time.Now().Add(-time.Hour), time.Now().Add(48*time.Hour)
	n.ca, _, n.key, _ = cert_test.NewTestCaCert(cert.Version2, cert.Curve_CURVE25519, before, after, nil, nil, nil)
	n.ca2, _, n.key2, _ = cert_test.NewTestCaCert(cert.Version2, cert.Curve_CURVE25519, before, after, nil, nil, nil)
	me := n.newNode(selfName, selfAddrs, under, false)
	c := config.NewC(l)
	c.Settings["lighthouse"] = map[string]any{"am_lighthouse": true, "serve_dns": true, "dns": map[string]any{"host": "127.0.0.1", "port": "0"}}
	ctx, cancel := context.WithCancel(context.Background())
	cancel() // dnsServer.Start returns before binding a socket
	ds, err := newDnsServerFromConfig(ctx, l, me.f.pki, me.hm, c)
	verifDNSMust(err)
	me.f.dnsServer = ds
	n.VerifDNS = &VerifDNS{ds: ds, hm: me.hm, f: me.f, c: c, pki: me.f.pki, jsons: map[string]uint64{}}
	return n
}

// AddNode adds a peer node listening on underlay address under; foreignCA: its certificate is signed by a CA the
// node under test does not trust. Returns its number (>= 1).
func (n *VerifDNSNet) AddNode(name string, addrs []netip.Addr, under netip.AddrPort, foreignCA bool) int {
	n.newNode(name, addrs, under, foreignCA)
	return len(n.nodes) - 1
}

// Blocklist puts node i's certificate fingerprint on the blocklist of the node under test.
func (n *VerifDNSNet) Blocklist(i int) {
	fp, err := n.nodes[i].crt.Fingerprint()
	verifDNSMust(err)
	n.nodes[0].pool.BlocklistFingerprint(fp)
}

func (n *VerifDNSNet) nodeAt(a netip.AddrPort) *verifDNSNode {
	for _, nd := range n.nodes {
		if nd.under == a {
			return nd
		}
	}
	return nil
}

// pump delivers every handshake packet a node wrote to the node listening on its destination, until silence.
func (n *VerifDNSNet) pump() {
	for round := 0; round < 16; round++ {
		moved := false
		for _, src := range n.nodes {
			pkts := src.conn.pkts
			src.conn.pkts = nil
			for _, p := range pkts {
				dst := n.nodeAt(p.to)
				if dst == nil {
					continue
				}
				var h header.H
				if err := h.Parse(p.b); err != nil || h.Type != header.Handshake {
					continue // close-tunnel etc.: not part of these scenarios
				}
				moved = true
				dst.hsm.HandleIncoming(ViaSender{UdpAddr: src.under}, append([]byte(nil), p.b...), &h)
			}
		}
		if !moved {
			return
		}
	}
}

// Dial: node `from` initiates a tunnel to overlay address target, sending to underlay address to (what a static host
// map entry or a lighthouse answer would have told it), and the network runs until silence.
func (n *VerifDNSNet) Dial(from int, target netip.Addr, to netip.AddrPort) {
	nd := n.nodes[from]
	h := nd.hsm.StartHandshake(target, nil)
	h.remotes = NewRemoteList([]netip.Addr{target}, nil)
	h.remotes.Lock()
	if to.Addr().Is4() {
		h.remotes.unlockedSetV4(target, target, []*V4AddrPort{netAddrToProtoV4AddrPort(to.Addr(), to.Port())}, func(netip.Addr, *V4AddrPort) bool { return true })
	} else {
		h.remotes.unlockedSetV6(target, target, []*V6AddrPort{netAddrToProtoV6AddrPort(to.Addr(), to.Port())}, func(netip.Addr, *V6AddrPort) bool { return true })
	}
	h.remotes.Unlock()
	nd.hsm.handleOutbound(target, false)
	n.pump()
}

type VerifDNSTunnel struct {
	Name  string       // certificate name of the peer
	Addrs []netip.Addr // the overlay addresses in that certificate
}

// Established lists the tunnels in the main hostmap of the node under test (primary and secondary), each with the
// name and the addresses of the peer certificate it was authenticated with.
func (n *VerifDNSNet) Established() []VerifDNSTunnel {
	hm := n.nodes[0].hm
	hm.RLock()
	defer hm.RUnlock()
	seen := map[*HostInfo]bool{}
	var out []VerifDNSTunnel
	add := func(hi *HostInfo) {
		if hi == nil || seen[hi] {
			return
		}
		seen[hi] = true
		c := hi.GetCert()
		if c == nil {
			return
		}
		t := VerifDNSTunnel{Name: c.Certificate.Name()}
		for _, p := range c.Certificate.Networks() {
			t.Addrs = append(t.Addrs, p.Addr())
		}
		out = append(out, t)
	}
	for _, hi := range hm.Indexes {
		add(hi)
	}
	sort.Slice(out, func(i, j int) bool {
		if out[i].Name != out[j].Name {
			return out[i].Name < out[j].Name
		}
		return fmt.Sprint(out[i].Addrs) < fmt.Sprint(out[j].Addrs)
	})
	return out
}

// PendingCount: handshakes of the node under test that have not completed.
func (n *VerifDNSNet) PendingCount() int {
	hsm := n.nodes[0].hsm
	hsm.RLock()
	defer hsm.RUnlock()
	return len(hsm.vpnIps)
}

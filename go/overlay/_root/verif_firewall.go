//go:build verif && (comp_all || comp_fwrules || comp_fwconfig)

package nebula

// Verification shim for C16/C17 (component fwrules) and C22 (component fwconfig).
// It only constructs inputs (dummy certificates, a real cert.CAPool, a HostInfo filled by the real
// HostInfo.buildNetworks) and calls the real NewFirewall / AddRule / AddFirewallRulesFromConfig / Drop /
// parsePort. No firewall logic is re-implemented here.

import (
	"errors"
	"log/slog"
	"net/netip"
	"time"

	"github.com/gaissmai/bart"
	"github.com/slackhq/nebula/cert"
	"github.com/slackhq/nebula/config"
	"github.com/slackhq/nebula/firewall"
)

var verifFwLogger = slog.New(slog.DiscardHandler)

// VerifFwCert is the part of a certificate the firewall reads.
type VerifFwCert struct {
	Name     string
	Networks []netip.Prefix
	Unsafe   []netip.Prefix
	Groups   []string
	Issuer   string
}

type verifFwCert struct{ c VerifFwCert }

func (d *verifFwCert) Version() cert.Version                 { return cert.Version2 }
func (d *verifFwCert) Curve() cert.Curve                     { return cert.Curve_CURVE25519 }
func (d *verifFwCert) Groups() []string                      { return d.c.Groups }
func (d *verifFwCert) IsCA() bool                            { return false }
func (d *verifFwCert) Issuer() string                        { return d.c.Issuer }
func (d *verifFwCert) Name() string                          { return d.c.Name }
func (d *verifFwCert) Networks() []netip.Prefix              { return d.c.Networks }
func (d *verifFwCert) NotAfter() time.Time                   { return time.Time{} }
func (d *verifFwCert) NotBefore() time.Time                  { return time.Time{} }
func (d *verifFwCert) PublicKey() []byte                     { return nil }
func (d *verifFwCert) MarshalPublicKeyPEM() []byte           { return nil }
func (d *verifFwCert) Signature() []byte                     { return nil }
func (d *verifFwCert) UnsafeNetworks() []netip.Prefix        { return d.c.Unsafe }
func (d *verifFwCert) MarshalForHandshakes() ([]byte, error) { return nil, nil }
func (d *verifFwCert) CheckSignature(key []byte) bool        { return true }
func (d *verifFwCert) Fingerprint() (string, error)          { return "", nil }
func (d *verifFwCert) Expired(t time.Time) bool              { return false }
func (d *verifFwCert) VerifyPrivateKey(curve cert.Curve, key []byte) error {
	return nil
}
func (d *verifFwCert) String() string                 { return "" }
func (d *verifFwCert) Marshal() ([]byte, error)       { return nil, nil }
func (d *verifFwCert) MarshalPEM() ([]byte, error)    { return nil, nil }
func (d *verifFwCert) MarshalJSON() ([]byte, error)   { return nil, nil }
func (d *verifFwCert) Copy() cert.Certificate         { c := *d; return &c }

// Constants of firewall/packet.go (T1).
const (
	VerifFwProtoAny      = firewall.ProtoAny
	VerifFwProtoTCP      = firewall.ProtoTCP
	VerifFwProtoUDP      = firewall.ProtoUDP
	VerifFwProtoICMP     = firewall.ProtoICMP
	VerifFwProtoICMPv6   = firewall.ProtoICMPv6
	VerifFwPortAny       = firewall.PortAny
	VerifFwPortFragment  = firewall.PortFragment
)

// VerifFw is one real Firewall plus the node-side tables the handshake code would hold.
type VerifFw struct {
	fw     *Firewall
	myNets *bart.Lite // as pki.go builds CertState.myVpnNetworksTable
	pool   *cert.CAPool
}

// VerifNewFirewall calls NewFirewall with a certificate carrying the given networks / unsafe networks.
func VerifNewFirewall(my VerifFwCert, defaultLocalCIDRAny bool) *VerifFw {
	c := &verifFwCert{c: my}
	fw := NewFirewall(verifFwLogger, 12*time.Hour, 3*time.Hour, 10*time.Hour, c)
	fw.defaultLocalCIDRAny = defaultLocalCIDRAny // what NewFirewallFromConfig sets from firewall.default_local_cidr_any
	t := new(bart.Lite)
	for _, n := range my.Networks {
		t.Insert(n)
	}
	return &VerifFw{fw: fw, myNets: t, pool: cert.NewCAPool()}
}

// SetPool installs CA certificates: fingerprint -> CA name.
func (v *VerifFw) SetPool(cas map[string]string) {
	v.pool = cert.NewCAPool()
	for sha, name := range cas {
		v.pool.CAs[sha] = &cert.CachedCertificate{Certificate: &verifFwCert{c: VerifFwCert{Name: name}}, Fingerprint: sha}
	}
}

// VerifFwRule holds the arguments of Firewall.AddRule.
type VerifFwRule struct {
	Incoming                              bool
	Proto                                 uint8
	Start, End                            int32
	Groups                                []string
	Host, Cidr, LocalCidr, CAName, CASha string
}

func (v *VerifFw) AddRule(r VerifFwRule) (err error) {
	defer func() {
		if p := recover(); p != nil {
			err = errors.New("panic")
		}
	}()
	return v.fw.AddRule(r.Incoming, r.Proto, r.Start, r.End, r.Groups, r.Host, r.Cidr, r.LocalCidr, r.CAName, r.CASha)
}

// VerifFwPeer is a HostInfo as the handshake code leaves it: vpnAddrs = the certificate's addresses, networks
// filled by the real buildNetworks.
type VerifFwPeer struct{ h *HostInfo }

func (v *VerifFw) NewPeer(c VerifFwCert) *VerifFwPeer {
	crt := &verifFwCert{c: c}
	inv := map[string]struct{}{}
	for _, g := range c.Groups {
		inv[g] = struct{}{}
	}
	h := &HostInfo{
		ConnectionState: &ConnectionState{peerCert: &cert.CachedCertificate{Certificate: crt, InvertedGroups: inv}},
	}
	for _, n := range c.Networks {
		h.vpnAddrs = append(h.vpnAddrs, n.Addr())
	}
	h.buildNetworks(v.myNets, crt)
	return &VerifFwPeer{h: h}
}

// Verdict classes of Drop.
const (
	VerifFwAllow = iota
	VerifFwInvalidRemote
	VerifFwPeerRejected
	VerifFwInvalidLocal
	VerifFwNoRule
	VerifFwPanic
	VerifFwOther
)

func (v *VerifFw) ResetConntrack() {
	v.fw.Conntrack.Lock()
	v.fw.Conntrack.Conns = map[firewall.Packet]*conn{}
	v.fw.Conntrack.TimerWheel = NewTimerWheel[firewall.Packet](3*time.Hour, 12*time.Hour)
	v.fw.Conntrack.Unlock()
}

func (v *VerifFw) Tracked(p firewall.Packet) bool {
	v.fw.Conntrack.Lock()
	defer v.fw.Conntrack.Unlock()
	_, ok := v.fw.Conntrack.Conns[p]
	return ok
}

// Drop calls the real Firewall.Drop. cache: nil, or a routine-local cache to pass (may already hold the packet).
func (v *VerifFw) Drop(p firewall.Packet, incoming bool, peer *VerifFwPeer, cache firewall.ConntrackCache) (class int, before, after bool) {
	before = v.Tracked(p)
	func() {
		defer func() {
			if r := recover(); r != nil {
				class = VerifFwPanic
			}
		}()
		err := v.fw.Drop(p, incoming, peer.h, v.pool, cache)
		switch {
		case err == nil:
			class = VerifFwAllow
		case errors.Is(err, ErrInvalidRemoteIP):
			class = VerifFwInvalidRemote
		case errors.Is(err, ErrPeerRejected):
			class = VerifFwPeerRejected
		case errors.Is(err, ErrInvalidLocalIP):
			class = VerifFwInvalidLocal
		case errors.Is(err, ErrNoMatchingRule):
			class = VerifFwNoRule
		default:
			class = VerifFwOther
		}
	}()
	after = v.Tracked(p)
	return
}

// ---- C22 ------------------------------------------------------------------------------------------

// VerifParsePort calls the real parsePort.
func VerifParsePort(s string) (int32, int32, bool) {
	a, b, err := parsePort(s)
	return a, b, err == nil
}

// VerifFwRecorder is a FirewallInterface that records the AddRule calls.
type VerifFwRecorder struct{ Rules []VerifFwRule }

func (r *VerifFwRecorder) AddRule(incoming bool, proto uint8, startPort int32, endPort int32, groups []string, host string, cidr, localCidr, caName string, caSha string) error {
	r.Rules = append(r.Rules, VerifFwRule{incoming, proto, startPort, endPort, groups, host, cidr, localCidr, caName, caSha})
	return nil
}

// VerifFwLoadYAML parses YAML text the way nebula's config loader does.
func VerifFwLoadYAML(text string) (*config.C, error) {
	c := config.NewC(verifFwLogger)
	err := c.LoadString(text)
	return c, err
}

// VerifRulesFromC runs the real AddFirewallRulesFromConfig against a recorder.
func VerifRulesFromC(inbound bool, c *config.C) (rec *VerifFwRecorder, ok bool, panicked bool) {
	rec = &VerifFwRecorder{}
	defer func() {
		if p := recover(); p != nil {
			ok, panicked = false, true
		}
	}()
	err := AddFirewallRulesFromConfig(verifFwLogger, inbound, c, rec)
	return rec, err == nil, false
}

// AddFromC runs the real AddFirewallRulesFromConfig against the real Firewall.
func (v *VerifFw) AddFromC(inbound bool, c *config.C) (ok bool, panicked bool) {
	defer func() {
		if p := recover(); p != nil {
			ok, panicked = false, true
		}
	}()
	err := AddFirewallRulesFromConfig(verifFwLogger, inbound, c, v.fw)
	return err == nil, false
}

func verifFwConfig(inbound bool, rules any) *config.C {
	c := config.NewC(verifFwLogger)
	key := "outbound"
	if inbound {
		key = "inbound"
	}
	c.Settings["firewall"] = map[string]any{key: rules}
	return c
}

// VerifRulesFromConfig runs the real AddFirewallRulesFromConfig against a recorder.
func VerifRulesFromConfig(inbound bool, rules any) (rec *VerifFwRecorder, ok bool, panicked bool) {
	rec = &VerifFwRecorder{}
	defer func() {
		if p := recover(); p != nil {
			ok, panicked = false, true
		}
	}()
	err := AddFirewallRulesFromConfig(verifFwLogger, inbound, verifFwConfig(inbound, rules), rec)
	return rec, err == nil, false
}

// AddFromConfig runs the real AddFirewallRulesFromConfig against the real Firewall.
func (v *VerifFw) AddFromConfig(inbound bool, rules any) (ok bool, panicked bool) {
	defer func() {
		if p := recover(); p != nil {
			ok, panicked = false, true
		}
	}()
	err := AddFirewallRulesFromConfig(verifFwLogger, inbound, verifFwConfig(inbound, rules), v.fw)
	return err == nil, false
}

// VerifNewFirewallFromConfig builds the firewall the way the node does: the real NewFirewallFromConfig (NewFirewall,
// firewall.default_local_cidr_any, then the outbound and inbound tables) with a CertState holding the given certificate.
func VerifNewFirewallFromConfig(my VerifFwCert, c *config.C) (v *VerifFw, ok bool, panicked bool) {
	defer func() {
		if p := recover(); p != nil {
			v, ok, panicked = nil, false, true
		}
	}()
	cs := &CertState{v2Cert: &verifFwCert{c: my}}
	fw, err := NewFirewallFromConfig(verifFwLogger, cs, c)
	if err != nil || fw == nil {
		return nil, false, false
	}
	t := new(bart.Lite)
	for _, n := range my.Networks {
		t.Insert(n)
	}
	return &VerifFw{fw: fw, myNets: t, pool: cert.NewCAPool()}, true, false
}

// ---- C17: firewall reload ---------------------------------------------------------------------------

// VerifFwReloader is the minimal Interface the real Interface.reloadFirewall needs: the PKI holding the current
// certificate state, the firewall, a logger; plus the config object that is reloaded.
type VerifFwReloader struct {
	f        *Interface
	cfg      *config.C
	startVer uint16
}

// StartVersion is the rulesVersion the history started with.
func (r *VerifFwReloader) StartVersion() uint16 { return r.startVer }

func verifFwCertState(my VerifFwCert) *CertState {
	return &CertState{v2Cert: &verifFwCert{c: my}, initiatingVersion: cert.Version2}
}

// VerifNewFwReloader builds the initial firewall with the real NewFirewallFromConfig.
func VerifNewFwReloader(my VerifFwCert, yaml string) (*VerifFwReloader, error) {
	cfg := config.NewC(verifFwLogger)
	if err := cfg.LoadString(yaml); err != nil {
		return nil, err
	}
	pki := &PKI{}
	pki.cs.Store(verifFwCertState(my))
	fw, err := NewFirewallFromConfig(verifFwLogger, pki.getCertState(), cfg)
	if err != nil {
		return nil, err
	}
	return &VerifFwReloader{f: &Interface{pki: pki, firewall: fw, l: verifFwLogger}, cfg: cfg}, nil
}

// Reload installs a re-issued certificate and reloads the configuration text, then calls the real reloadFirewall.
// Returns whether the config machinery reported a change of the firewall section (an input of the decision, not
// under test here) and whether the firewall object was replaced.
func (r *VerifFwReloader) Reload(my VerifFwCert, yaml string) (cfgChanged, rebuilt bool, err error) {
	r.f.pki.cs.Store(verifFwCertState(my))
	if err = r.cfg.ReloadConfigString(yaml); err != nil {
		return
	}
	cfgChanged = r.cfg.HasChanged("firewall")
	old := r.f.firewall
	r.f.reloadFirewall(r.cfg)
	return cfgChanged, r.f.firewall != old, nil
}

// Fw returns a handle on the CURRENT firewall (for NewPeer / Drop / Tracked); my = the current certificate.
func (r *VerifFwReloader) Fw(my VerifFwCert) *VerifFw {
	t := new(bart.Lite)
	for _, n := range my.Networks {
		t.Insert(n)
	}
	return &VerifFw{fw: r.f.firewall, myNets: t, pool: cert.NewCAPool()}
}

// SetRulesVersion lets a history start close to the uint16 wrap of Firewall.rulesVersion.
func (r *VerifFwReloader) SetRulesVersion(v uint16) { r.f.firewall.rulesVersion = v; r.startVer = v }

//go:build verif && (comp_all || comp_hostmap)

package nebula

// C29/C28, component hostmap_rx: the same node as verif_hostmap.go, but with a REAL PKI (CA pool, signed
// certificates) and every pending-handshake operation routed through the code the node's goroutines run:
//   timer routine:  handleOutbound (buildStage0Packet -> handshake.Machine -> allocateIndex; timeout -> DeleteHostInfo)
//   rx routine:     HandleIncoming -> beginHandshake (generateIndex, CheckAndComplete), and continueHandshake called
//                   with a RETAINED *HandshakeHostInfo: the rx routine resolves a reply with queryIndex(X), which
//                   returns the pointer, and only afterwards takes hh.Lock - in between the handshake may time out and
//                   X may be re-issued to another pending handshake. continueHandshake's own "is it still tracked"
//                   test is therefore exercised with stale pointers, never replaced by a test in the harness.
// Peers are played with flynn/noise directly so that their replies authenticate.

import (
	"context"
	crand "crypto/rand"
	"fmt"
	"io"
	"net/netip"
	"time"

	"github.com/flynn/noise"
	"github.com/rcrowley/go-metrics"
	"github.com/slackhq/nebula/cert"
	"github.com/slackhq/nebula/cert_test"
	"github.com/slackhq/nebula/config"
	"github.com/slackhq/nebula/handshake"
	"github.com/slackhq/nebula/header"
	"github.com/slackhq/nebula/noiseutil"
	"github.com/slackhq/nebula/udp"
)

const VerifHMRxOwnAddr = 250 // the node's own overlay address number (never given to a peer)

type verifHMRxPeer struct {
	addrs   []uint64
	hsBytes []byte
	pub     []byte
	priv    []byte
}

type verifHMRx struct {
	ca       cert.Certificate
	caKey    []byte
	suite    noise.CipherSuite
	peers    []*verifHMRxPeer
	realRand io.Reader
	via      ViaSender
}

func verifHMRxMust(err error) {
	if err != nil {
		panic(fmt.Sprintf("verif hostmap_rx: %v", err))
	}
}

// VerifNewHMReal builds the node with a real certificate state.
func VerifNewHMReal() *VerifHM {
	v := VerifNewHM()
	l := verifHostmapLogger
	rx := &verifHMRx{realRand: crand.Reader, via: ViaSender{UdpAddr: netip.MustParseAddrPort("198.51.100.7:4242")}}
	rx.suite = noise.NewCipherSuite(noise.DH25519, noiseutil.CipherAESGCM, noise.HashSHA256)
	before, after := time.Now().Add(-time.Hour), time.Now().Add(48*time.Hour)
	rx.ca, _, rx.caKey, _ = cert_test.NewTestCaCert(cert.Version2, cert.Curve_CURVE25519, before, after, nil, nil, nil)
	pool := cert.NewCAPool()
	verifHMRxMust(pool.AddCA(rx.ca))

	pub, priv := cert_test.X25519Keypair()
	t := &cert.TBSCertificate{Version: cert.Version2, Curve: cert.Curve_CURVE25519, Name: "me",
		Networks:  []netip.Prefix{netip.PrefixFrom(VerifHMAddr(VerifHMRxOwnAddr), 8)},
		NotBefore: time.Unix(before.Unix(), 0), NotAfter: time.Unix(after.Unix(), 0), PublicKey: pub}
	mine, err := t.Sign(rx.ca, cert.Curve_CURVE25519, rx.caKey)
	verifHMRxMust(err)
	cs, err := newCertState(cert.Version2, nil, mine, false, cert.Curve_CURVE25519, priv, "aes")
	verifHMRxMust(err)
	pki := &PKI{l: l}
	pki.cs.Store(cs)
	pki.caPool.Store(pool)

	v.hsm.lightHouse.remoteAllowList.Store(&RemoteAllowList{})
	conf := config.NewC(l)
	verifHMRxMust(conf.LoadString("relay:\n  use_relays: false\n"))

	f := v.f
	f.outside = &udp.NoopConn{}
	f.writers = []udp.Conn{f.outside}
	f.pki = pki
	f.myVpnAddrs = cs.myVpnAddrs
	f.myVpnAddrsTable = cs.myVpnAddrsTable
	f.myVpnNetworks = cs.myVpnNetworks
	f.myVpnNetworksTable = cs.myVpnNetworksTable
	f.relayManager = NewRelayManager(context.Background(), l, v.hm, conf)
	f.metricHandshakes = metrics.NilHistogram{}
	f.cachedPacketMetrics = &cachedPacketMetrics{sent: metrics.NilCounter{}, dropped: metrics.NilCounter{}}
	v.rx = rx
	return v
}

// RxNewPeer creates a peer identity whose certificate lists the given overlay addresses (a repeated address is
// listed under different prefix lengths). Returns the peer number and the addresses in certificate order.
func (v *VerifHM) RxNewPeer(addrs []uint64) (int, []uint64) {
	rx := v.rx
	p := &verifHMRxPeer{}
	seen := map[uint64]int{}
	var nets []netip.Prefix
	for _, a := range addrs {
		bits := 8 + 8*seen[a]
		if bits > 24 {
			continue
		}
		seen[a]++
		nets = append(nets, netip.PrefixFrom(VerifHMAddr(a), bits))
	}
	p.pub, p.priv = cert_test.X25519Keypair()
	t := &cert.TBSCertificate{Version: cert.Version2, Curve: cert.Curve_CURVE25519, Name: fmt.Sprintf("peer-%d", len(rx.peers)),
		Networks: nets, NotBefore: rx.ca.NotBefore(), NotAfter: rx.ca.NotAfter(), PublicKey: p.pub}
	c, err := t.Sign(rx.ca, cert.Curve_CURVE25519, rx.caKey)
	verifHMRxMust(err)
	p.hsBytes, err = c.MarshalForHandshakes()
	verifHMRxMust(err)
	for _, n := range c.Networks() {
		p.addrs = append(p.addrs, verifHMAddrNum(n.Addr()))
	}
	rx.peers = append(rx.peers, p)
	return len(rx.peers) - 1, append([]uint64(nil), p.addrs...)
}

func (v *VerifHM) rxPeerState(p *verifHMRxPeer, initiator bool) *noise.HandshakeState {
	hs, err := noise.NewHandshakeState(noise.Config{
		CipherSuite:   v.rx.suite,
		Random:        v.rx.realRand,
		Pattern:       noise.HandshakeIX,
		Initiator:     initiator,
		StaticKeypair: noise.DHKey{Private: p.priv, Public: p.pub},
		PresharedKey:  []byte{},
	})
	verifHMRxMust(err)
	return hs
}

// RxTracked: the timer routine finds this pending handshake under its address (handleOutbound is addressed by the
// overlay address the timer wheel delivers, not by hostinfo).
func (v *VerifHM) RxTracked(id uint64) bool { return v.PendingByAddr(id) }

// RxReady: the handshake has built its stage-0 message (so it holds an index and a peer can answer it).
func (v *VerifHM) RxReady(id uint64) bool {
	hh, ok := v.hh[id]
	return ok && hh.ready && hh.machine != nil && hh.hostinfo.HandshakePacket[handshakePacketStage0] != nil
}

// RxOutbound runs the timer routine's handleOutbound for the address of pending hostinfo id (retry counter reset, so
// this is never the timeout): the first attempt builds stage 0 through handshake.Machine, which calls allocateIndex.
func (v *VerifHM) RxOutbound(id uint64, script []uint32) (served []uint32) {
	hh := v.hh[id]
	a := hh.hostinfo.vpnAddrs[0]
	hh.counter = 0
	return v.withRand(script, func() { v.hsm.handleOutbound(a, false) })
}

// RxReply lets the peer answer the stage-0 message of hostinfo id (peer index ridx) and hands the reply to
// continueHandshake together with the RETAINED handshake pointer - whether or not that handshake is still tracked.
func (v *VerifHM) RxReply(id uint64, peer int, ridx uint32) {
	hh := v.hh[id]
	p := v.rx.peers[peer]
	stage0 := hh.hostinfo.HandshakePacket[handshakePacketStage0]
	hs := v.rxPeerState(p, false)
	msg, _, _, err := hs.ReadMessage(nil, stage0[header.Len:])
	verifHMRxMust(err)
	mine, err := handshake.UnmarshalPayload(msg)
	verifHMRxMust(err)
	v.clock++
	payload := handshake.MarshalPayload(nil, handshake.Payload{Cert: p.hsBytes, ResponderIndex: ridx,
		InitiatorIndex: mine.InitiatorIndex, Time: v.clock, CertVersion: uint32(cert.Version2)})
	pkt := header.Encode(make([]byte, header.Len), header.Version, header.Handshake, header.HandshakeIXPSK0,
		mine.InitiatorIndex, 2)
	pkt, _, _, err = hs.WriteMessage(pkt, payload)
	verifHMRxMust(err)
	v.hsm.continueHandshake(v.rx.via, hh, pkt)
}

// RxStage1 lets the peer start a handshake (peer index ridx): HandleIncoming -> beginHandshake -> generateIndex ->
// CheckAndComplete. A hostinfo that reached the main hostmap is registered under id and added is true; otherwise
// the hostinfo the node built was dropped by the node (local index collision) and only its description is kept.
func (v *VerifHM) RxStage1(id uint64, peer int, ridx uint32, script []uint32) (added bool, served []uint32) {
	p := v.rx.peers[peer]
	hs := v.rxPeerState(p, true)
	v.clock++
	payload := handshake.MarshalPayload(nil, handshake.Payload{Cert: p.hsBytes, InitiatorIndex: ridx, Time: v.clock,
		CertVersion: uint32(cert.Version2)})
	pkt := header.Encode(make([]byte, header.Len), header.Version, header.Handshake, header.HandshakeIXPSK0, 0, 1)
	pkt, _, _, err := hs.WriteMessage(pkt, payload)
	verifHMRxMust(err)
	var h header.H
	verifHMRxMust(h.Parse(pkt))
	served = v.withRand(script, func() { v.hsm.HandleIncoming(v.rx.via, pkt, &h) })
	v.hm.RLock()
	var fresh []*HostInfo
	for _, hi := range v.hm.Indexes {
		if _, ok := v.ids[hi]; !ok {
			fresh = append(fresh, hi)
		}
	}
	v.hm.RUnlock()
	if len(fresh) > 1 {
		panic("verif hostmap_rx: more than one hostinfo created by one stage-1 message")
	}
	if len(fresh) == 1 {
		v.register(id, fresh[0])
		return true, served
	}
	// dropped by the node: keep what the harness knows about it (certificate addresses, the index generateIndex
	// produced = the first non-zero candidate, the peer's index) so that the dump still lists every hostinfo created
	var local uint32
	for _, c := range served {
		if c != 0 {
			local = c
			break
		}
	}
	ph := &HostInfo{localIndexId: local, remoteIndexId: ridx}
	for _, a := range p.addrs {
		ph.vpnAddrs = append(ph.vpnAddrs, VerifHMAddr(a))
	}
	v.register(id, ph)
	return false, served
}

// RxTimeout drives the real timeout branch of handleOutbound for pending hostinfo id (which must be tracked).
func (v *VerifHM) RxTimeout(id uint64) {
	hh := v.hh[id]
	hh.counter = v.hsm.config.retries
	v.hsm.handleOutbound(hh.hostinfo.vpnAddrs[0], false)
}

//go:build verif && (comp_all || comp_sshpath)

package nebula

import "io"

// Verification shim for C45 (component sshpath): exposes sshSanitizeFilePath and the three SSH debug
// commands that take a file path. Nothing here re-implements nebula logic.

// VerifSshSanitizeFilePath calls sshSanitizeFilePath; ok = (err == nil). The error text is not observed.
func VerifSshSanitizeFilePath(sandboxDir, filePath string) (q string, ok bool) {
	q, err := sshSanitizeFilePath(sandboxDir, filePath)
	if err != nil {
		return "", false
	}
	return q, true
}

type verifSshLines struct{ lines []string }

func (w *verifSshLines) WriteLine(s string) error            { w.lines = append(w.lines, s); return nil }
func (w *verifSshLines) Write(s string) error                { w.lines = append(w.lines, s); return nil }
func (w *verifSshLines) WriteBytes(b []byte) error           { w.lines = append(w.lines, string(b)); return nil }
func (w *verifSshLines) GetWriter() io.Writer                { return io.Discard }

// VerifSshFileCommand runs one of the commands that write to a user supplied path:
// 0 = start-cpu-profile (sshStartCpuProfile), 1 = save-heap-profile (sshGetHeapProfile),
// 2 = save-mutex-profile (sshGetMutexProfile). The caller observes which files appeared.
func VerifSshFileCommand(cmd int, sandboxDir, filePath string) error {
	w := &verifSshLines{}
	switch cmd {
	case 0:
		return sshStartCpuProfile(sandboxDir, nil, []string{filePath}, w)
	case 1:
		return sshGetHeapProfile(sandboxDir, nil, []string{filePath}, w)
	default:
		return sshGetMutexProfile(sandboxDir, nil, []string{filePath}, w)
	}
}

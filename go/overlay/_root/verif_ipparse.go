//go:build verif && (comp_all || comp_ipparse || comp_reject)

package nebula

import "github.com/slackhq/nebula/firewall"

// VerifNewPacket is the real newPacket (outside.go): the classification of an inner IP packet that the
// firewall, conntrack and the coalescer consume.
func VerifNewPacket(data []byte, incoming bool, fp *firewall.ParsedPacket) error {
	return newPacket(data, incoming, fp)
}

// VerifMinFwPacketLen is the number of transport bytes parseV4 insists on (T1).
const VerifMinFwPacketLen = minFwPacketLen

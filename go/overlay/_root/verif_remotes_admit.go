//go:build verif && (comp_all || comp_remotes_admit)

package nebula

import (
	"context"
	"fmt"
	"log/slog"
	"net/netip"
	"slices"
	"sync"
	"sync/atomic"
	"time"

	"github.com/gaissmai/bart"
	"github.com/slackhq/nebula/cert"
	"github.com/slackhq/nebula/cert_test"
	"github.com/slackhq/nebula/config"
	"github.com/slackhq/nebula/header"
	"github.com/slackhq/nebula/udp"
)

var verifRALogger = slog.New(slog.DiscardHandler)

// verifRecConn records every datagram destination written to it.
type verifRecConn struct {
	udp.NoopConn
	mu  sync.Mutex
	dst []netip.AddrPort
	n   atomic.Int64
}

func (c *verifRecConn) WriteTo(_ []byte, a netip.AddrPort) error {
	c.mu.Lock()
	c.dst = append(c.dst, a)
	c.mu.Unlock()
	c.n.Add(1)
	return nil
}

func (c *verifRecConn) take() []netip.AddrPort {
	c.mu.Lock()
	defer c.mu.Unlock()
	r := c.dst
	c.dst = nil
	c.n.Store(0)
	return r
}

// verifEnc is the EncWriter handed to the lighthouse: it records which overlay addresses were sent to.
type verifEnc struct {
	mu   sync.Mutex
	sent []netip.Addr
	cs   *CertState
}

func (e *verifEnc) SendVia(*HostInfo, *Relay, []byte, []byte, []byte, bool, int) {}
func (e *verifEnc) SendMessageToVpnAddr(_ header.MessageType, _ header.MessageSubType, a netip.Addr, _, _, _ []byte) {
	e.mu.Lock()
	e.sent = append(e.sent, a)
	e.mu.Unlock()
}
func (e *verifEnc) SendMessageToHostInfo(header.MessageType, header.MessageSubType, *HostInfo, []byte, []byte, []byte) {
}
func (e *verifEnc) Handshake(netip.Addr)            {}
func (e *verifEnc) GetHostInfo(netip.Addr) *HostInfo { return nil }
func (e *verifEnc) GetCertState() *CertState        { return e.cs }

// VerifLH is a real LightHouse (built by NewLightHouseFromConfig from config maps) with a real Punchy whose
// datagrams land on a recording conn, and the slice of Interface that handleHostRoaming / readOutsidePackets need.
type VerifLH struct {
	LH        *LightHouse
	lhh       *LightHouseHandler
	f         *Interface
	rxc       *rxContext
	enc       *verifEnc
	punchConn *verifRecConn
	outside   *verifRecConn
	scheduled atomic.Int64
	cancel    context.CancelFunc
	ca        cert.Certificate
	caKey     []byte
}

// VerifNewLH: networks are the node's own overlay networks (certificate), settings the configuration maps
// (lighthouse.*, static_host_map, punchy.*, preferred_ranges ...).
func VerifNewLH(networks []netip.Prefix, settings map[string]any) (v *VerifLH, err error) {
	defer func() {
		if r := recover(); r != nil {
			err = fmt.Errorf("panic: %v", r)
		}
	}()
	l := verifRALogger
	c := config.NewC(l)
	for k, x := range settings {
		c.Settings[k] = x
	}
	nt := new(bart.Lite)
	for _, n := range networks {
		nt.Insert(n)
	}
	at := new(bart.Lite)
	for _, n := range networks {
		at.Insert(netip.PrefixFrom(n.Addr(), n.Addr().BitLen()))
	}
	cs := &CertState{myVpnNetworks: networks, myVpnNetworksTable: nt}
	ctx, cancel := context.WithCancel(context.Background())
	v = &VerifLH{cancel: cancel, punchConn: &verifRecConn{}, outside: &verifRecConn{}, enc: &verifEnc{cs: cs}}

	p := NewPunchyFromConfig(l, c, v.punchConn)
	// Count every Schedule call: items are never returned to the pool, so each call allocates through New. The
	// fire function is the scheduler's own (queue the job unless the context is done).
	s := p.sched
	s.pool.New = func() any {
		v.scheduled.Add(1)
		si := &schedItem[holepunchJob]{s: s}
		si.fire = func() {
			select {
			case si.s.queue <- si.val:
			case <-si.ctx.Done():
			}
		}
		return si
	}

	lh, err := NewLightHouseFromConfig(ctx, l, c, cs, nil, p)
	if err != nil {
		cancel()
		return nil, err
	}
	lh.ifce = v.enc
	hm := NewHostMapFromConfig(l, c)
	p.Start(ctx, v.enc, hm, lh)
	v.LH = lh
	v.lhh = lh.NewRequestHandler()
	v.f = &Interface{
		l:                     l,
		lightHouse:            lh,
		hostMap:               hm,
		myVpnNetworksTable:    nt,
		myVpnNetworks:         networks,
		myVpnAddrsTable:       at,
		messageMetrics:        newMessageMetrics(),
		outside:               v.outside,
		sendRecvErrorConfig:   recvErrorAlways,
		acceptRecvErrorConfig: recvErrorNever,
	}
	v.rxc = &rxContext{scratch: make([]byte, mtu), nb: make([]byte, 12), h: &header.H{}, hostmapCache: map[uint32]*HostInfo{}, lhh: v.lhh}
	return v, nil
}

func (v *VerifLH) Close() { v.cancel() }

const (
	VerifMsgQueryReply = int(NebulaMeta_HostQueryReply)
	VerifMsgUpdate     = int(NebulaMeta_HostUpdateNotification)
	VerifMsgPunch      = int(NebulaMeta_HostPunchNotification)
)

// VerifLHMsg is a lighthouse message as it arrives on a tunnel.
type VerifLHMsg struct {
	Type      int // one of VerifMsg*
	OldVpn    uint32
	Vpn       *netip.Addr
	V4        [][2]uint32
	V6        [][3]uint64
	OldRelays []uint32
	Relays    []netip.Addr
}

// HandleRequest marshals the message, feeds it to the real HandleRequest as coming from the tunnel of `from`, waits
// for every punch it scheduled to be written, and returns the punch destinations.
func (v *VerifLH) HandleRequest(from []netip.Addr, m VerifLHMsg) (punched []netip.AddrPort, err error) {
	defer func() {
		if r := recover(); r != nil {
			err = fmt.Errorf("panic: %v", r)
		}
	}()
	d := &NebulaMetaDetails{OldVpnAddr: m.OldVpn, OldRelayVpnAddrs: m.OldRelays}
	if m.Vpn != nil {
		d.VpnAddr = netAddrToProtoAddr(*m.Vpn)
	}
	for _, e := range m.V4 {
		d.V4AddrPorts = append(d.V4AddrPorts, &V4AddrPort{Addr: e[0], Port: e[1]})
	}
	for _, e := range m.V6 {
		d.V6AddrPorts = append(d.V6AddrPorts, &V6AddrPort{Hi: e[0], Lo: e[1], Port: uint32(e[2])})
	}
	for _, r := range m.Relays {
		d.RelayVpnAddrs = append(d.RelayVpnAddrs, netAddrToProtoAddr(r))
	}
	b, err := (&NebulaMeta{Type: NebulaMeta_MessageType(m.Type), Details: d}).Marshal()
	if err != nil {
		return nil, err
	}
	v.punchConn.take()
	before := v.scheduled.Load()
	v.lhh.HandleRequest(netip.AddrPortFrom(netip.MustParseAddr("198.51.100.1"), 4242), from, b, v.enc)
	want := v.scheduled.Load() - before
	deadline := time.Now().Add(20 * time.Second)
	for v.punchConn.n.Load() < want {
		if time.Now().After(deadline) {
			return nil, fmt.Errorf("scheduled %d punches, %d written", want, v.punchConn.n.Load())
		}
		time.Sleep(20 * time.Microsecond)
	}
	return v.punchConn.take(), nil
}

// Lookup returns the list registered under vpn (no creation).
func (v *VerifLH) Lookup(vpn netip.Addr) *RemoteList {
	v.LH.RLock()
	defer v.LH.RUnlock()
	return v.LH.addrMap[vpn]
}

// VerifOwnerCount: how many entries one owner contributes.
type VerifOwnerCount struct {
	Owner             netip.Addr
	R4, R6, Relays    int
	L4, L6            bool
}

// Observe: CopyAddrs of the list registered under vpn, its relays, and the per-owner contribution sizes.
func (v *VerifLH) Observe(vpn netip.Addr, pref []netip.Prefix) (ok bool, addrs []netip.AddrPort, relays []netip.Addr, counts []VerifOwnerCount) {
	r := v.Lookup(vpn)
	if r == nil {
		return false, nil, nil, nil
	}
	addrs = r.CopyAddrs(pref)
	r.RLock()
	defer r.RUnlock()
	relays = append([]netip.Addr{}, r.relays...)
	for o, c := range r.cache {
		oc := VerifOwnerCount{Owner: o}
		if c.v4 != nil {
			oc.R4, oc.L4 = len(c.v4.reported), c.v4.learned != nil
		}
		if c.v6 != nil {
			oc.R6, oc.L6 = len(c.v6.reported), c.v6.learned != nil
		}
		if c.relay != nil {
			oc.Relays = len(c.relay.relay)
		}
		counts = append(counts, oc)
	}
	slices.SortFunc(counts, func(a, b VerifOwnerCount) int { return a.Owner.Compare(b.Owner) })
	return true, addrs, relays, counts
}

// StartHandshakeRemotes is the tail of HandshakeManager.StartHandshake that touches the remote list: static hosts
// are left alone, everyone else gets the calculated remotes.
func (v *VerifLH) StartHandshakeRemotes(vpn netip.Addr) bool {
	_, doTrigger := v.LH.GetStaticHostList()[vpn]
	if !doTrigger {
		doTrigger = v.LH.addCalculatedRemotes(vpn)
	}
	return doTrigger
}

func (v *VerifLH) Delete(vpns []netip.Addr) { v.LH.DeleteVpnAddrs(vpns) }

// OutsideAccepts sends a Test packet with an unknown index from src through the real readOutsidePackets: it answers
// with a recv_error unless the packet was dropped before the tunnel lookup (source inside the node's own networks).
func (v *VerifLH) OutsideAccepts(src netip.AddrPort) bool {
	pkt := header.Encode(make([]byte, header.Len), header.Version, header.Test, header.TestRequest, 0x7fffff01, 7)
	pkt = append(pkt, make([]byte, 32)...)
	v.outside.take()
	v.f.readOutsidePackets(ViaSender{UdpAddr: src}, pkt, v.rxc)
	w := v.outside.take()
	return len(w) == 1 && w[0] == src
}

// Roam: an authenticated packet arrived from src on the tunnel of vpns (a fresh HostInfo holding the list the
// lighthouse has for it): the real readOutsidePackets gate followed by the real handleHostRoaming. Reports whether
// src became the tunnel's remote (the data destination).
func (v *VerifLH) Roam(vpns []netip.Addr, src netip.AddrPort) bool {
	if !v.OutsideAccepts(src) {
		return false
	}
	hi := &HostInfo{vpnAddrs: vpns, remotes: v.LH.QueryCache(vpns)}
	v.f.handleHostRoaming(hi, ViaSender{UdpAddr: src})
	return hi.GetRemote() == src
}

// HandshakeSourceAccepted: a handshake packet from src carrying a (really signed) certificate for vpns passes
// readOutsidePackets' gate and the real validatePeerCert (the check both the responder and the initiator side use
// before src becomes a remote).
func (v *VerifLH) HandshakeSourceAccepted(vpns []netip.Addr, src netip.AddrPort) bool {
	if !v.OutsideAccepts(src) {
		return false
	}
	if v.ca == nil {
		v.ca, _, v.caKey, _ = cert_test.NewTestCaCert(cert.Version2, cert.Curve_CURVE25519, time.Time{}, time.Time{}, nil, nil, nil)
	}
	nets := make([]netip.Prefix, len(vpns))
	for i, a := range vpns {
		nets[i] = netip.PrefixFrom(a, a.BitLen())
	}
	c, _, _, _ := cert_test.NewTestCert(cert.Version2, cert.Curve_CURVE25519, v.ca, v.caKey, "peer", time.Time{}, time.Time{}, nets, nil, nil)
	hm := &HandshakeManager{f: v.f, l: verifRALogger}
	_, _, ok := hm.validatePeerCert(ViaSender{UdpAddr: src}, &cert.CachedCertificate{Certificate: c})
	return ok
}

// Block: a handshake to vpn was answered from a by the wrong host.
func (v *VerifLH) Block(vpn netip.Addr, a netip.AddrPort) {
	v.LH.QueryCache([]netip.Addr{vpn}).BlockRemote(ViaSender{UdpAddr: a})
}

// HandshakeDone: the handshake with the host holding vpns completed.
func (v *VerifLH) HandshakeDone(vpns []netip.Addr) {
	v.LH.QueryCache(vpns).RefreshFromHandshake(vpns)
}

// PunchAll: the connection manager's keepalive punch for the tunnel of vpns with punchy.target_all_remotes.
func (v *VerifLH) PunchAll(vpns []netip.Addr, pref []netip.Prefix) []netip.AddrPort {
	v.f.hostMap.preferredRanges.Store(&pref)
	hi := &HostInfo{vpnAddrs: vpns, remotes: v.LH.QueryCache(vpns)}
	v.punchConn.take()
	v.LH.punchy.SendPunchToAll(hi)
	return v.punchConn.take()
}

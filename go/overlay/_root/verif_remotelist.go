//go:build verif && (comp_all || comp_remotelist || comp_remotes_admit)

package nebula

import (
	"net/netip"
)

// T1: the cap on reported addresses / relays per owner.
const VerifMaxRemotes = MaxRemotes

// VerifRL drives a real RemoteList through its (mostly unexported) mutators.
type VerifRL struct{ R *RemoteList }

func VerifNewRL(vpnAddrs []netip.Addr, shouldAdd func([]netip.Addr, netip.Addr) bool) *VerifRL {
	return &VerifRL{R: NewRemoteList(vpnAddrs, shouldAdd)}
}

func (v *VerifRL) Learn(owner netip.Addr, a netip.AddrPort) { v.R.LearnRemote(owner, a) }

// SetV4 is unlockedSetV4(owner, vpn, to, check); entries are (addr, port) as they arrive in the protobuf message.
func (v *VerifRL) SetV4(owner, vpn netip.Addr, to [][2]uint32, check func(netip.Addr, netip.AddrPort) bool) {
	l := make([]*V4AddrPort, len(to))
	for i, e := range to {
		l[i] = &V4AddrPort{Addr: e[0], Port: e[1]}
	}
	v.R.Lock()
	defer v.R.Unlock()
	v.R.unlockedSetV4(owner, vpn, l, func(vpnIp netip.Addr, x *V4AddrPort) bool {
		return check(vpnIp, protoV4AddrPortToNetAddrPort(x))
	})
}

// SetV6 is unlockedSetV6; entries are (hi, lo, port).
func (v *VerifRL) SetV6(owner, vpn netip.Addr, to [][3]uint64, check func(netip.Addr, netip.AddrPort) bool) {
	l := make([]*V6AddrPort, len(to))
	for i, e := range to {
		l[i] = &V6AddrPort{Hi: e[0], Lo: e[1], Port: uint32(e[2])}
	}
	v.R.Lock()
	defer v.R.Unlock()
	v.R.unlockedSetV6(owner, vpn, l, func(vpnIp netip.Addr, x *V6AddrPort) bool {
		return check(vpnIp, protoV6AddrPortToNetAddrPort(x))
	})
}

func (v *VerifRL) PrependV4(owner netip.Addr, e [2]uint32) {
	v.R.Lock()
	defer v.R.Unlock()
	v.R.unlockedPrependV4(owner, &V4AddrPort{Addr: e[0], Port: e[1]})
}

func (v *VerifRL) PrependV6(owner netip.Addr, e [3]uint64) {
	v.R.Lock()
	defer v.R.Unlock()
	v.R.unlockedPrependV6(owner, &V6AddrPort{Hi: e[0], Lo: e[1], Port: uint32(e[2])})
}

func (v *VerifRL) SetRelay(owner netip.Addr, to []netip.Addr) {
	v.R.Lock()
	defer v.R.Unlock()
	v.R.unlockedSetRelay(owner, to)
}

func (v *VerifRL) Block(a netip.AddrPort)          { v.R.BlockRemote(ViaSender{UdpAddr: a}) }
func (v *VerifRL) BlockRelayed(a netip.AddrPort)   { v.R.BlockRemote(ViaSender{UdpAddr: a, IsRelayed: true}) }
func (v *VerifRL) Unblock()                        { v.R.ResetBlockedRemotes() }
func (v *VerifRL) Refresh(vpnAddrs []netip.Addr)   { v.R.RefreshFromHandshake(vpnAddrs) }
func (v *VerifRL) ResetOwner(owner netip.Addr)     { v.R.ResetForOwner(owner) }
func (v *VerifRL) ClearDNS()                       { v.R.ClearHostnameResults() }
func (v *VerifRL) Blocked() []netip.AddrPort       { return v.R.CopyBlockedRemotes() }

// SetDNS installs resolver results the way the background resolver does: store the new set, then run the
// onUpdate callback (which marks the list dirty).
func (v *VerifRL) SetDNS(ips []netip.AddrPort) {
	m := make(map[netip.AddrPort]struct{}, len(ips))
	for _, a := range ips {
		m[a] = struct{}{}
	}
	v.R.Lock()
	defer v.R.Unlock()
	if v.R.hr == nil {
		v.R.unlockedSetHostnamesResults(&hostnamesResults{})
	}
	v.R.hr.ips.Store(&m)
	v.R.shouldRebuild = true
}

// Copy is CopyAddrs followed by a copy of the relay candidates (what relay_manager reads).
func (v *VerifRL) Copy(pref []netip.Prefix) ([]netip.AddrPort, []netip.Addr) {
	a := v.R.CopyAddrs(pref)
	v.R.RLock()
	defer v.R.RUnlock()
	return a, append([]netip.Addr{}, v.R.relays...)
}

// ForEach returns the addresses ForEach hands to its callback (handshake and punch destinations) with the
// preferred flag.
func (v *VerifRL) ForEach(pref []netip.Prefix) ([]netip.AddrPort, []bool) {
	var as []netip.AddrPort
	var ps []bool
	v.R.ForEach(pref, func(a netip.AddrPort, p bool) { as = append(as, a); ps = append(ps, p) })
	return as, ps
}

func (v *VerifRL) Len(pref []netip.Prefix) int { return v.R.Len(pref) }

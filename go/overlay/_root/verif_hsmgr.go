//go:build verif && (comp_all || comp_hsmgr)

package nebula

// Verification shim for C09 / C10 / C32 (components hsmgr, hsretry): one node made of a REAL HandshakeManager,
// HostMap, PKI (real CA pool, real signed v1/v2 certificates), LightHouse stub, recording udp.Conn and - for
// C32 - a real Firewall. Peers are played by the shim with flynn/noise directly (so that the peer-reported
// time, the peer index and the certificate of every handshake message are chosen by the harness); the node's
// side of every handshake runs through the code the node itself uses:
//   StartHandshake / GetOrHandshake + cachePacket, handleOutbound (buildStage0Packet -> handshake.Machine ->
//   allocateIndex), NextOutboundHandshakeTimerTick, HandleIncoming -> beginHandshake / continueHandshake
//   (validatePeerCert, CheckAndComplete, handleCheckAndCompleteError, Complete, sendMessageNow),
//   HandshakeManager.DeleteHostInfo, HostMap.DeleteHostInfo, HostMap.MakePrimary.
// Nothing here re-implements nebula logic; the shim only names objects (hostinfos, stage-1 payloads,
// underlay addresses) by numbers and reports canonical dumps and the packets that reached the socket.

import (
	"bytes"
	"context"
	crand "crypto/rand"
	"encoding/binary"
	"fmt"
	"io"
	"log/slog"
	"net/netip"
	"sort"
	"strings"
	"time"

	"github.com/flynn/noise"
	"github.com/gaissmai/bart"
	"github.com/rcrowley/go-metrics"
	"github.com/slackhq/nebula/cert"
	"github.com/slackhq/nebula/cert_test"
	"github.com/slackhq/nebula/config"
	"github.com/slackhq/nebula/firewall"
	"github.com/slackhq/nebula/handshake"
	"github.com/slackhq/nebula/header"
	"github.com/slackhq/nebula/noiseutil"
	"github.com/slackhq/nebula/udp"
)

const (
	VerifHSMaxCachedPackets      = maxCachedPackets
	VerifHSDefaultRetries        = DefaultHandshakeRetries
	VerifHSDefaultTryIntervalNs  = int64(DefaultHandshakeTryInterval)
	VerifHSMaxHostInfosPerVpnIp  = MaxHostInfosPerVpnIp
	VerifHSUnknown               = 999999999
	verifHSUnderlayPort          = 4242
	verifHSPreferredUnderlayBase = 100
)

// VerifHSTimeout is hsTimeout(retries, interval): the span of the outbound handshake timer wheel.
func VerifHSTimeout(retries int64, interval time.Duration) time.Duration { return hsTimeout(retries, interval) }

// verifHSLevel is the node's log handler: it prints nothing. Info and above are enabled so that Handle sees every
// log line of beginHandshake / continueHandshake; when a hook is armed for a message, Handle runs it at that very
// point of the code under test, on the same goroutine - this is how the harness interleaves the tun reader's
// GetOrHandshake + cachePacket with the UDP reader's continueHandshake without any hook in /repo.
type verifHSLevel struct{ w *VerifHSWorld }

func (verifHSLevel) Enabled(_ context.Context, l slog.Level) bool { return l >= slog.LevelInfo }
func (h verifHSLevel) Handle(_ context.Context, r slog.Record) error {
	if h.w != nil && h.w.hook != nil && strings.HasPrefix(r.Message, h.w.hookMsg) {
		f := h.w.hook
		h.w.hook = nil
		h.w.hookFired = true
		f()
	}
	return nil
}
func (h verifHSLevel) WithAttrs([]slog.Attr) slog.Handler { return h }
func (h verifHSLevel) WithGroup(string) slog.Handler      { return h }

// log messages the harness can interleave at
const (
	VerifHSLogReceived      = "Handshake message received"           // beginHandshake and continueHandshake, before CheckAndComplete / Complete
	VerifHSLogIncorrectHost = "Incorrect host responded to handshake" // continueHandshake, before the restart
)

// AtLog arms fn to run inside the node's next log call whose message starts with msg.
func (w *VerifHSWorld) AtLog(msg string, fn func()) {
	w.hookMsg, w.hook, w.hookFired = msg, fn, false
}

// LogHookFired reports whether the armed hook ran, and disarms it.
func (w *VerifHSWorld) LogHookFired() bool {
	w.hook = nil
	return w.hookFired
}

// ---- scripted crypto/rand --------------------------------------------------------------------------

// verifHSRand serves the 4-byte reads of generateIndex from a script (then from a counter) and passes every other
// read (noise ephemeral keys) to the real source. Every served candidate is recorded.
type verifHSRand struct {
	real     io.Reader
	script   []uint32
	pos      int
	fallback *uint32
	served   []uint32
}

func (r *verifHSRand) Read(p []byte) (int, error) {
	if len(p) != 4 {
		return io.ReadFull(r.real, p)
	}
	var v uint32
	if r.pos < len(r.script) {
		v = r.script[r.pos]
		r.pos++
	} else {
		*r.fallback++
		v = 0x7e000000 + *r.fallback
	}
	r.served = append(r.served, v)
	binary.BigEndian.PutUint32(p, v)
	return 4, nil
}

// ---- recording socket ------------------------------------------------------------------------------

type verifHSPkt struct {
	b    []byte
	addr netip.AddrPort
}

type verifHSConn struct {
	udp.NoopConn
	pkts []verifHSPkt
}

func (c *verifHSConn) WriteTo(b []byte, addr netip.AddrPort) error {
	c.pkts = append(c.pkts, verifHSPkt{b: append([]byte(nil), b...), addr: addr})
	return nil
}

func (c *verifHSConn) WriteBatch(bufs [][]byte, addrs []netip.AddrPort) (int, error) {
	for i := range bufs {
		c.WriteTo(bufs[i], addrs[i])
	}
	return len(bufs), nil
}

// ---- names -----------------------------------------------------------------------------------------

// VerifHSAddr: overlay address number a <-> 10.0.hi.lo for a < 1000, fd00::(a-1000) for a >= 1000 (IPv6)
const verifHSV6Base = 1000

func VerifHSAddr(a uint64) netip.Addr {
	if a >= verifHSV6Base {
		n := a - verifHSV6Base
		return netip.AddrFrom16([16]byte{0xfd, 0, 0, 0, 0, 0, 0, 0, 0, 0, 0, 0, 0, 0, byte(n >> 8), byte(n)})
	}
	return netip.AddrFrom4([4]byte{10, 0, byte(a >> 8), byte(a)})
}

func verifHSAddrNum(a netip.Addr) uint64 {
	if a.Is6() && !a.Is4In6() {
		b := a.As16()
		if b[0] != 0xfd {
			return VerifHSUnknown
		}
		for _, x := range b[1:14] {
			if x != 0 {
				return VerifHSUnknown
			}
		}
		return verifHSV6Base + (uint64(b[14])<<8 | uint64(b[15]))
	}
	if !a.Is4() {
		return VerifHSUnknown
	}
	b := a.As4()
	if b[0] != 10 || b[1] != 0 {
		return VerifHSUnknown
	}
	return uint64(b[2])<<8 | uint64(b[3])
}

// VerifHSUnderlay: underlay address number u; numbers >= 100 lie inside the preferred range 172.16.0.0/16
func VerifHSUnderlay(u uint64) netip.AddrPort {
	if u >= verifHSPreferredUnderlayBase {
		return netip.AddrPortFrom(netip.AddrFrom4([4]byte{172, 16, 0, byte(u - verifHSPreferredUnderlayBase)}), verifHSUnderlayPort)
	}
	return netip.AddrPortFrom(netip.AddrFrom4([4]byte{198, 51, 100, byte(u)}), verifHSUnderlayPort)
}

func verifHSUnderlayNum(ap netip.AddrPort) uint64 {
	if !ap.Addr().Is4() || ap.Port() != verifHSUnderlayPort {
		return VerifHSUnknown
	}
	b := ap.Addr().As4()
	switch {
	case b[0] == 172 && b[1] == 16 && b[2] == 0:
		return uint64(b[3]) + verifHSPreferredUnderlayBase
	case b[0] == 198 && b[1] == 51 && b[2] == 100:
		return uint64(b[3])
	}
	return VerifHSUnknown
}

// ---- the world -------------------------------------------------------------------------------------

type VerifHSConfig struct {
	MyAddrs     []uint64 // my overlay addresses, ascending, IPv4 first (v2 certificate: all of them, v1 certificate: the first)
	NoV1        bool     // the node holds no v1 certificate
	NoV2        bool     // the node holds no v2 certificate (then only MyAddrs[0] is certified)
	Preferred   bool     // preferred_ranges = [172.16.0.0/16]
	Retries     int64
	TryInterval time.Duration
	AllowPorts  []uint16 // outbound firewall: udp to these ports is allowed (C32); nil = no firewall rules
	InitiateV1  bool     // pki.initiating_version = 1
}

type verifHSPeer struct {
	version cert.Version
	addrs   []uint64
	crt     cert.Certificate
	hsBytes []byte
	pub     []byte
	priv    []byte
}

type VerifHSWorld struct {
	cfg   VerifHSConfig
	l     *slog.Logger
	hm    *HostMap
	hsm   *HandshakeManager
	f     *Interface
	lh    *LightHouse
	rec   *verifHSConn
	suite noise.CipherSuite

	ca    cert.Certificate
	caKey []byte
	peers []*verifHSPeer

	ids    map[*HostInfo]uint64
	byID   map[uint64]*HostInfo
	hh     map[uint64]*HandshakeHostInfo
	nextID uint64

	rxKeys   []noiseutil.CipherState // peers' receive keys of completed initiator handshakes (to read released packets)
	stage1   [][]byte          // stage-1 payload number (1-based) -> full packet
	stage2   map[uint64][]byte // hostinfo id -> the stage-2 reply this node built for it
	fallback uint32
	realRand io.Reader

	hookMsg   string
	hook      func()
	hookFired bool

	own []uint64 // every address of every certificate the node holds
}

// OwnAddrs: all overlay addresses of all certificates the node holds ("one of its own addresses"), ascending.
func (w *VerifHSWorld) OwnAddrs() []uint64 { return append([]uint64(nil), w.own...) }

func verifHSMust(err error) {
	if err != nil {
		panic(fmt.Sprintf("verif hsmgr: %v", err))
	}
}

func VerifHSNewWorld(cfg VerifHSConfig) *VerifHSWorld {
	w := &VerifHSWorld{cfg: cfg, rec: &verifHSConn{}, ids: map[*HostInfo]uint64{}, byID: map[uint64]*HostInfo{},
		hh: map[uint64]*HandshakeHostInfo{}, nextID: 1, stage2: map[uint64][]byte{}, realRand: crand.Reader}
	l := slog.New(verifHSLevel{w: w})
	w.l = l
	w.suite = noise.NewCipherSuite(noise.DH25519, noiseutil.CipherAESGCM, noise.HashSHA256)

	before, after := time.Now().Add(-time.Hour), time.Now().Add(48*time.Hour)
	var caPriv []byte
	w.ca, _, caPriv, _ = cert_test.NewTestCaCert(cert.Version2, cert.Curve_CURVE25519, before, after, nil, nil, nil)
	w.caKey = caPriv
	pool := cert.NewCAPool()
	verifHSMust(pool.AddCA(w.ca))

	// my certificates: one key pair, a v2 certificate with all my addresses and a v1 certificate with the first
	var nets []netip.Prefix
	for _, a := range cfg.MyAddrs { // ascending, an IPv4 address first (the v1 certificate carries the first only)
		bits := 8
		if a >= verifHSV6Base {
			bits = 64
		}
		nets = append(nets, netip.PrefixFrom(VerifHSAddr(a), bits))
	}
	pub, priv := cert_test.X25519Keypair()
	sign := func(v cert.Version, n []netip.Prefix) cert.Certificate {
		t := &cert.TBSCertificate{Version: v, Curve: cert.Curve_CURVE25519, Name: "me", Networks: n,
			NotBefore: time.Unix(before.Unix(), 0), NotAfter: time.Unix(after.Unix(), 0), PublicKey: pub}
		c, err := t.Sign(w.ca, cert.Curve_CURVE25519, w.caKey)
		verifHSMust(err)
		return c
	}
	// the node's own-address tables (Interface.myVpnAddrsTable, myVpnNetworksTable) are whatever the REAL newCertState
	// derives from the certificates the node holds; the harness / model side uses OwnAddrs(): all addresses of all
	// certificates held
	var v1, v2 cert.Certificate
	if !cfg.NoV2 {
		v2 = sign(cert.Version2, nets)
	}
	if !cfg.NoV1 {
		v1 = sign(cert.Version1, nets[:1])
	}
	if v1 == nil && v2 == nil {
		panic("verif hsmgr: a node without certificate")
	}
	dv := cert.Version2
	if cfg.InitiateV1 {
		dv = cert.Version1
	}
	cs, err := newCertState(dv, v1, v2, false, cert.Curve_CURVE25519, priv, "aes")
	verifHSMust(err)
	seenOwn := map[uint64]bool{}
	for _, c := range []cert.Certificate{v1, v2} {
		if c == nil {
			continue
		}
		for _, n := range c.Networks() {
			if a := verifHSAddrNum(n.Addr()); !seenOwn[a] {
				seenOwn[a] = true
				w.own = append(w.own, a)
			}
		}
	}
	sort.Slice(w.own, func(i, j int) bool { return w.own[i] < w.own[j] })
	pki := &PKI{l: l}
	pki.cs.Store(cs)
	pki.caPool.Store(pool)

	w.hm = newHostMap(l)
	pr := []netip.Prefix{}
	if cfg.Preferred {
		pr = append(pr, netip.MustParsePrefix("172.16.0.0/16"))
	}
	w.hm.preferredRanges.Store(&pr)

	lh := &LightHouse{
		l:            l,
		amLighthouse: true, // QueryServer returns at once (no query worker), GetOrHandshake does not promote
		addrMap:      map[netip.Addr]*RemoteList{},
		queryChan:    make(chan netip.Addr, 16),
	}
	lhs := []netip.Addr{}
	static := map[netip.Addr]struct{}{}
	lh.localAddrsFn = func(*LocalAllowList) []netip.Addr { return nil }
	lh.lighthouses.Store(&lhs)
	lh.staticList.Store(&static)
	lh.remoteAllowList.Store(&RemoteAllowList{})
	w.lh = lh

	conf := config.NewC(l)
	verifHSMust(conf.LoadString("relay:\n  use_relays: false\n"))

	hcfg := HandshakeConfig{tryInterval: cfg.TryInterval, retries: cfg.Retries, triggerBuffer: DefaultHandshakeTriggerBuffer}
	if hcfg.tryInterval == 0 {
		hcfg = defaultHandshakeConfig
	}
	w.hsm = NewHandshakeManager(l, w.hm, lh, w.rec, hcfg)

	fw := NewFirewall(l, 12*time.Minute, 3*time.Minute, 10*time.Minute, cs.GetDefaultCertificate())
	for _, p := range cfg.AllowPorts {
		verifHSMust(fw.AddRule(false, firewall.ProtoUDP, int32(p), int32(p), nil, "any", "", "", "", ""))
	}

	w.f = &Interface{
		hostMap:             w.hm,
		outside:             w.rec,
		writers:             []udp.Conn{w.rec},
		handshakeManager:    w.hsm,
		lightHouse:          lh,
		pki:                 pki,
		firewall:            fw,
		myVpnAddrs:          cs.myVpnAddrs,
		myVpnAddrsTable:     cs.myVpnAddrsTable,
		myVpnNetworks:       cs.myVpnNetworks,
		myVpnNetworksTable:  cs.myVpnNetworksTable,
		relayManager:        NewRelayManager(context.Background(), l, w.hm, conf),
		metricHandshakes:    metrics.NilHistogram{},
		cachedPacketMetrics: &cachedPacketMetrics{sent: metrics.NilCounter{}, dropped: metrics.NilCounter{}},
		l:                   l,
	}
	w.hsm.f = w.f
	return w
}

func (w *VerifHSWorld) withRand(script []uint32, fn func()) []uint32 {
	r := &verifHSRand{real: w.realRand, script: script, fallback: &w.fallback}
	old := crand.Reader
	crand.Reader = io.Reader(r)
	defer func() { crand.Reader = old }()
	fn()
	return r.served
}

// ---- peers -----------------------------------------------------------------------------------------

// VerifHSPeerAddr is one network of a peer certificate: the address number and the prefix length (IPv4: 8, 16 or 24,
// IPv6: 48, 56 or 64; the same address may appear twice in one certificate under different prefix lengths).
type VerifHSPeerAddr struct {
	Addr uint64
	Bits int
}

// NewPeer creates a peer identity (key pair + certificate signed by the CA the node trusts) and returns its number.
func (w *VerifHSWorld) NewPeer(version int, addrs []VerifHSPeerAddr) int {
	var nets []netip.Prefix
	p := &verifHSPeer{version: cert.Version(version)}
	for _, a := range addrs {
		nets = append(nets, netip.PrefixFrom(VerifHSAddr(a.Addr), a.Bits))
		p.addrs = append(p.addrs, a.Addr)
	}
	p.pub, p.priv = cert_test.X25519Keypair()
	t := &cert.TBSCertificate{Version: p.version, Curve: cert.Curve_CURVE25519, Name: fmt.Sprintf("peer-%d", len(w.peers)),
		Networks: nets, NotBefore: w.ca.NotBefore(), NotAfter: w.ca.NotAfter(), PublicKey: p.pub}
	c, err := t.Sign(w.ca, cert.Curve_CURVE25519, w.caKey)
	verifHSMust(err)
	p.crt = c
	p.hsBytes, err = c.MarshalForHandshakes()
	verifHSMust(err)
	w.peers = append(w.peers, p)
	return len(w.peers) - 1
}

// PeerAddrs returns the overlay address numbers in the order the certificate lists them (the certificate
// sorts its networks).
func (w *VerifHSWorld) PeerAddrs(peer int) []uint64 {
	var r []uint64
	for _, n := range w.peers[peer].crt.Networks() {
		r = append(r, verifHSAddrNum(n.Addr()))
	}
	return r
}

func (w *VerifHSWorld) peerState(p *verifHSPeer, initiator bool) *noise.HandshakeState {
	hs, err := noise.NewHandshakeState(noise.Config{
		CipherSuite:           w.suite,
		Random:                w.realRand,
		Pattern:               noise.HandshakeIX,
		Initiator:             initiator,
		StaticKeypair:         noise.DHKey{Private: p.priv, Public: p.pub},
		PresharedKey:          []byte{},
		PresharedKeyPlacement: 0,
	})
	verifHSMust(err)
	return hs
}

// NewStage1 builds a first handshake message of the given peer (peer index ridx, peer-reported time t) and
// returns its payload number.
func (w *VerifHSWorld) NewStage1(peer int, ridx uint32, t uint64) uint64 {
	p := w.peers[peer]
	hs := w.peerState(p, true)
	payload := handshake.MarshalPayload(nil, handshake.Payload{Cert: p.hsBytes, InitiatorIndex: ridx, Time: t,
		CertVersion: uint32(p.version)})
	pkt := header.Encode(make([]byte, header.Len), header.Version, header.Handshake, header.HandshakeIXPSK0, 0, 1)
	pkt, _, _, err := hs.WriteMessage(pkt, payload)
	verifHSMust(err)
	w.stage1 = append(w.stage1, pkt)
	return uint64(len(w.stage1))
}

// AlterStage1Time is what an on-path attacker can do with a captured first message: in Noise IX the first message
// carries the ephemeral key, the static key and the payload in the clear, so the peer-reported time in the payload
// can be rewritten without knowing any key. Returns the payload number of the altered copy.
func (w *VerifHSWorld) AlterStage1Time(pkt uint64, t uint64) uint64 {
	orig := w.stage1[pkt-1]
	const clear = header.Len + 32 + 32 // header, e, s
	p, err := handshake.UnmarshalPayload(orig[clear:])
	verifHSMust(err)
	p.Time = t
	forged := append([]byte(nil), orig[:clear]...)
	forged = handshake.MarshalPayload(forged, p)
	w.stage1 = append(w.stage1, forged)
	return uint64(len(w.stage1))
}

func (w *VerifHSWorld) incoming(pkt []byte, v uint64) {
	var h header.H
	verifHSMust(h.Parse(pkt))
	buf := append([]byte(nil), pkt...) // the listener's buffer is reused by the caller
	w.hsm.HandleIncoming(ViaSender{UdpAddr: VerifHSUnderlay(v)}, buf, &h)
	for i := range buf {
		buf[i] = 0xee
	}
}

// DeliverStage1 hands stage-1 payload number pkt (first delivery or replay) to HandleIncoming as coming from
// underlay address v; script feeds generateIndex. Returns the candidates generateIndex consumed.
func (w *VerifHSWorld) DeliverStage1(pkt uint64, v uint64, script []uint32) []uint32 {
	served := w.withRand(script, func() { w.incoming(w.stage1[pkt-1], v) })
	w.adopt()
	return served
}

// DeliverStage1Anon is DeliverStage1 without naming the responder hostinfo it may create (C32 follows pending
// handshakes only).
func (w *VerifHSWorld) DeliverStage1Anon(pkt uint64, v uint64) {
	w.incoming(w.stage1[pkt-1], v)
}

// ---- initiator side ----------------------------------------------------------------------------------

// Start calls the real StartHandshake(a). A fresh pending hostinfo is given its own, empty remote list (in the
// node it would be the lighthouse cache entry of the address).
func (w *VerifHSWorld) Start(a uint64) {
	addr := VerifHSAddr(a)
	var got *HandshakeHostInfo
	h := w.hsm.StartHandshake(addr, func(hh *HandshakeHostInfo) { got = hh })
	if _, ok := w.ids[h]; !ok {
		h.remotes = NewRemoteList([]netip.Addr{addr}, nil)
		w.register(h, got)
	}
}

// StartWithRemotes is Start with underlay addresses to send stage 0 to (C32).
func (w *VerifHSWorld) StartWithRemotes(a uint64, remotes []uint64) {
	addr := VerifHSAddr(a)
	var got *HandshakeHostInfo
	h := w.hsm.StartHandshake(addr, func(hh *HandshakeHostInfo) { got = hh })
	if _, ok := w.ids[h]; !ok {
		h.remotes = NewRemoteList([]netip.Addr{addr}, nil)
		var v4 []*V4AddrPort
		for _, u := range remotes {
			ap := VerifHSUnderlay(u)
			v4 = append(v4, netAddrToProtoV4AddrPort(ap.Addr(), ap.Port()))
		}
		h.remotes.Lock()
		h.remotes.unlockedSetV4(addr, addr, v4, func(netip.Addr, *V4AddrPort) bool { return true })
		h.remotes.Unlock()
		w.register(h, got)
	}
}

func (w *VerifHSWorld) register(h *HostInfo, hh *HandshakeHostInfo) uint64 {
	id := w.nextID
	w.nextID++
	w.ids[h] = id
	w.byID[id] = h
	if hh != nil {
		w.hh[id] = hh
	}
	return id
}

// adopt names the hostinfos the node created by itself since the last call (beginHandshake's responder
// hostinfo, the restarted handshake after a wrong responder) in creation order: at most one per operation.
func (w *VerifHSWorld) adopt() {
	w.hsm.RLock()
	var pend []*HandshakeHostInfo
	for _, hh := range w.hsm.vpnIps {
		if _, ok := w.ids[hh.hostinfo]; !ok {
			pend = append(pend, hh)
		}
	}
	w.hsm.RUnlock()
	for _, hh := range pend {
		w.register(hh.hostinfo, hh)
	}
	w.hm.RLock()
	var main []*HostInfo
	for _, h := range w.hm.Indexes {
		if _, ok := w.ids[h]; !ok {
			main = append(main, h)
		}
	}
	w.hm.RUnlock()
	if len(pend)+len(main) > 1 {
		panic("verif hsmgr: more than one hostinfo created by one operation")
	}
	for _, h := range main {
		id := w.register(h, nil)
		if r := h.HandshakePacket[handshakePacketStage2]; r != nil {
			w.stage2[id] = append([]byte(nil), r...)
		}
	}
}

func (w *VerifHSWorld) Known(id uint64) bool { _, ok := w.byID[id]; return ok }

// AllocApplicable: handleOutbound(a) would reach buildStage0Packet for this hostinfo.
func (w *VerifHSWorld) AllocApplicable(id uint64) bool {
	hh, ok := w.hh[id]
	if !ok || len(hh.hostinfo.vpnAddrs) == 0 {
		return false
	}
	return w.hsm.queryVpnIp(hh.hostinfo.vpnAddrs[0]) == hh && !hh.ready && hh.hostinfo.localIndexId == 0
}

// Alloc runs the real handleOutbound (not lighthouse triggered) for the address of pending hostinfo id: the first
// attempt builds stage 0 through handshake.Machine, which allocates the local index with allocateIndex.
func (w *VerifHSWorld) Alloc(id uint64, script []uint32) []uint32 {
	hh := w.hh[id]
	a := hh.hostinfo.vpnAddrs[0]
	hh.counter = 0 // this component does not model the retry counter (C32 does): never run into the timeout branch here
	return w.withRand(script, func() { w.hsm.handleOutbound(a, false) })
}

// Stage2Applicable: the pending hostinfo has built a stage-0 message a peer can answer.
func (w *VerifHSWorld) Stage2Applicable(id uint64) bool {
	hh, ok := w.hh[id]
	return ok && hh.ready && hh.hostinfo.HandshakePacket[handshakePacketStage0] != nil
}

// DeliverStage2 lets the given peer answer the stage-0 message of pending hostinfo id (peer index ridx,
// peer-reported time t) and hands the reply to HandleIncoming as coming from underlay address v.
func (w *VerifHSWorld) DeliverStage2(id uint64, peer int, ridx uint32, t uint64, v uint64) {
	p := w.peers[peer]
	stage0 := w.byID[id].HandshakePacket[handshakePacketStage0]
	hs := w.peerState(p, false)
	msg, _, _, err := hs.ReadMessage(nil, stage0[header.Len:])
	verifHSMust(err)
	mine, err := handshake.UnmarshalPayload(msg)
	verifHSMust(err)
	payload := handshake.MarshalPayload(nil, handshake.Payload{Cert: p.hsBytes, ResponderIndex: ridx,
		InitiatorIndex: mine.InitiatorIndex, Time: t, CertVersion: uint32(p.version)})
	pkt := header.Encode(make([]byte, header.Len), header.Version, header.Handshake, header.HandshakeIXPSK0,
		mine.InitiatorIndex, 2)
	pkt, cs1, _, err := hs.WriteMessage(pkt, payload)
	verifHSMust(err)
	if cs1 != nil {
		w.rxKeys = append(w.rxKeys, noiseutil.NewCipherState(cs1, noiseutil.CipherAESGCM))
	}
	w.incoming(pkt, v)
	w.adopt()
}

func (w *VerifHSWorld) DelPending(id uint64) { w.hsm.DeleteHostInfo(w.byID[id]) }
func (w *VerifHSWorld) DelMain(id uint64)    { w.hm.DeleteHostInfo(w.byID[id]) }
func (w *VerifHSWorld) Promote(id uint64)    { w.hm.MakePrimary(w.byID[id]) }

// Timeout drives the real timeout branch of handleOutbound for the pending handshake of address a.
func (w *VerifHSWorld) Timeout(a uint64) bool {
	hh := w.hsm.queryVpnIp(VerifHSAddr(a))
	if hh == nil {
		return false
	}
	hh.counter = w.hsm.config.retries
	w.hsm.handleOutbound(VerifHSAddr(a), false)
	return true
}

// ---- C32: queue, timer -------------------------------------------------------------------------------

// VerifHSDataPacket builds an IPv4/UDP packet from my first address to overlay address a, destination port
// dport, carrying the 4-byte tag.
func (w *VerifHSWorld) DataPacket(a uint64, dport uint16, tag uint32) []byte {
	src := VerifHSAddr(w.cfg.MyAddrs[0]).As4()
	dst := VerifHSAddr(a).As4()
	b := make([]byte, 20+8+4)
	b[0] = 0x45
	binary.BigEndian.PutUint16(b[2:], uint16(len(b)))
	b[8] = 64
	b[9] = 17
	copy(b[12:16], src[:])
	copy(b[16:20], dst[:])
	binary.BigEndian.PutUint16(b[20:], 40000)
	binary.BigEndian.PutUint16(b[22:], dport)
	binary.BigEndian.PutUint16(b[24:], 12)
	binary.BigEndian.PutUint32(b[28:], tag)
	return b
}

// Cache does what consumeInsidePacket does with an inside packet for a host without a tunnel: GetOrHandshake
// with a callback that caches the packet for sendMessageNow. Returns whether a tunnel was ready (then the
// packet is not queued).
func (w *VerifHSWorld) Cache(a uint64, packet []byte) (ready bool) {
	f := w.f
	_, ready = f.handshakeManager.GetOrHandshake(VerifHSAddr(a), func(hh *HandshakeHostInfo) {
		hh.cachePacket(f.l, header.Message, 0, packet, f.sendMessageNow, f.cachedPacketMetrics)
	})
	w.adoptPending()
	return ready
}

func (w *VerifHSWorld) adoptPending() {
	w.hsm.RLock()
	var pend []*HandshakeHostInfo
	for _, hh := range w.hsm.vpnIps {
		if _, ok := w.ids[hh.hostinfo]; !ok {
			pend = append(pend, hh)
		}
	}
	w.hsm.RUnlock()
	if len(pend) > 1 {
		panic("verif hsmgr: more than one pending hostinfo created by one operation")
	}
	for _, hh := range pend {
		if hh.hostinfo.remotes == nil {
			hh.hostinfo.remotes = NewRemoteList([]netip.Addr{hh.hostinfo.vpnAddrs[0]}, nil)
		}
		w.register(hh.hostinfo, hh)
	}
}

// SetRemotes replaces the underlay addresses the lighthouse reported for the pending handshake of a.
func (w *VerifHSWorld) SetRemotes(a uint64, remotes []uint64) bool {
	hh := w.hsm.queryVpnIp(VerifHSAddr(a))
	if hh == nil {
		return false
	}
	addr := VerifHSAddr(a)
	var v4 []*V4AddrPort
	for _, u := range remotes {
		ap := VerifHSUnderlay(u)
		v4 = append(v4, netAddrToProtoV4AddrPort(ap.Addr(), ap.Port()))
	}
	hh.hostinfo.remotes.Lock()
	hh.hostinfo.remotes.unlockedSetV4(addr, addr, v4, func(netip.Addr, *V4AddrPort) bool { return true })
	hh.hostinfo.remotes.Unlock()
	return true
}

// Remotes is what handleOutbound will read: hostinfo.remotes.CopyAddrs(preferred ranges) of the pending handshake of a.
func (w *VerifHSWorld) Remotes(a uint64) []uint64 {
	hh := w.hsm.queryVpnIp(VerifHSAddr(a))
	if hh == nil || hh.hostinfo.remotes == nil {
		return nil
	}
	var r []uint64
	for _, ap := range hh.hostinfo.remotes.CopyAddrs(w.hm.GetPreferredRanges()) {
		r = append(r, verifHSUnderlayNum(ap))
	}
	return r
}

// PendingID returns the hostinfo id of the pending handshake of a.
func (w *VerifHSWorld) PendingID(a uint64) (uint64, bool) {
	hh := w.hsm.queryVpnIp(VerifHSAddr(a))
	if hh == nil {
		return 0, false
	}
	return w.idOf(hh.hostinfo), true
}

// DropMainTunnels removes every established tunnel from the main hostmap (the C32 component only follows pending
// handshakes; with the tunnel gone a later inside packet starts a new handshake).
func (w *VerifHSWorld) DropMainTunnels() {
	w.hm.RLock()
	var hs []*HostInfo
	for _, h := range w.hm.Indexes {
		hs = append(hs, h)
	}
	w.hm.RUnlock()
	for _, h := range hs {
		w.hm.DeleteHostInfo(h)
	}
}

// Trigger is what Run does with an address from the trigger channel.
func (w *VerifHSWorld) Trigger(a uint64) { w.hsm.handleOutbound(VerifHSAddr(a), true) }

// TimerTick is what Run does with a clock tick.
func (w *VerifHSWorld) TimerTick(now time.Time) { w.hsm.NextOutboundHandshakeTimerTick(now) }

// VerifHSPending describes one pending handshake (by address).
type VerifHSPending struct {
	Addr    uint64
	ID      uint64
	Counter int64
	Ready   bool
	Queue   []uint32 // tags of the queued packets, in order
	Ports   []uint16 // their udp destination ports
	HasIdx  bool     // registered in HandshakeManager.indexes
	Blocked []uint64
}

func (w *VerifHSWorld) Pending() []VerifHSPending {
	var out []VerifHSPending
	w.hsm.RLock()
	for a, hh := range w.hsm.vpnIps {
		p := VerifHSPending{Addr: verifHSAddrNum(a), ID: w.idOf(hh.hostinfo), Counter: hh.counter, Ready: hh.ready}
		for _, cp := range hh.packetStore {
			tag := uint32(0xffffffff)
			if len(cp.packet) >= 32 {
				tag = binary.BigEndian.Uint32(cp.packet[28:])
			}
			p.Queue = append(p.Queue, tag)
			port := uint16(0)
			if len(cp.packet) >= 24 {
				port = binary.BigEndian.Uint16(cp.packet[22:])
			}
			p.Ports = append(p.Ports, port)
		}
		if cur, ok := w.hsm.indexes[hh.hostinfo.localIndexId]; ok && cur == hh {
			p.HasIdx = true
		}
		if hh.hostinfo.remotes != nil {
			for _, b := range hh.hostinfo.remotes.CopyBlockedRemotes() {
				p.Blocked = append(p.Blocked, verifHSUnderlayNum(b))
			}
		}
		out = append(out, p)
	}
	w.hsm.RUnlock()
	sort.Slice(out, func(i, j int) bool { return out[i].Addr < out[j].Addr })
	return out
}

// IndexOwners lists the hostinfo ids registered in HandshakeManager.indexes, sorted.
func (w *VerifHSWorld) IndexOwners() []uint64 {
	var r []uint64
	w.hsm.RLock()
	for _, hh := range w.hsm.indexes {
		r = append(r, w.idOf(hh.hostinfo))
	}
	w.hsm.RUnlock()
	sort.Slice(r, func(i, j int) bool { return r[i] < r[j] })
	return r
}

// PendingIndexCount is len(HandshakeManager.indexes).
func (w *VerifHSWorld) PendingIndexCount() int {
	w.hsm.RLock()
	defer w.hsm.RUnlock()
	return len(w.hsm.indexes)
}

// ---- outputs ---------------------------------------------------------------------------------------

const (
	VerifHSOutStage0 = iota // a stage-0 transmission of pending hostinfo X to underlay U
	VerifHSOutStage2        // the stage-2 reply stored in tunnel X to underlay U
	VerifHSOutTest          // a test packet, peer index R, to underlay U
	VerifHSOutClose         // a close-tunnel packet, peer index R, to underlay U
	VerifHSOutData          // a data packet, peer index R, to underlay U; Tag = the decrypted payload tag when known
	VerifHSOutOther
)

type VerifHSOut struct {
	Kind  int
	X     uint64 // hostinfo id (stage 0 / stage 2)
	R     uint32 // header remote index
	U     uint64 // underlay address number
	Tag   uint32 // data: the tag of the inside packet, read with the peer's receive key
	TagOK bool
}

// TakeOutputs classifies and clears what reached the socket since the last call.
func (w *VerifHSWorld) TakeOutputs() []VerifHSOut {
	var out []VerifHSOut
	for _, p := range w.rec.pkts {
		var h header.H
		o := VerifHSOut{Kind: VerifHSOutOther, X: VerifHSUnknown, U: verifHSUnderlayNum(p.addr)}
		if err := h.Parse(p.b); err == nil {
			o.R = h.RemoteIndex
			switch {
			case h.Type == header.Handshake && h.MessageCounter == 1:
				o.Kind = VerifHSOutStage0
				for id, hi := range w.byID {
					if s0 := hi.HandshakePacket[handshakePacketStage0]; s0 != nil && bytes.Equal(s0, p.b) {
						if _, pending := w.hh[id]; pending {
							o.X = id
						}
					}
				}
			case h.Type == header.Handshake && h.MessageCounter == 2:
				o.Kind = VerifHSOutStage2
				for id, r := range w.stage2 {
					if bytes.Equal(r, p.b) {
						o.X = id
					}
				}
			case h.Type == header.Test:
				o.Kind = VerifHSOutTest
			case h.Type == header.CloseTunnel:
				o.Kind = VerifHSOutClose
			case h.Type == header.Message:
				o.Kind = VerifHSOutData
				for _, k := range w.rxKeys {
					if plain, err := k.DecryptDanger(nil, p.b[:header.Len], p.b[header.Len:], h.MessageCounter, make([]byte, 12)); err == nil && len(plain) >= 32 {
						o.Tag, o.TagOK = binary.BigEndian.Uint32(plain[28:]), true
						break
					}
				}
			}
		}
		out = append(out, o)
	}
	w.rec.pkts = w.rec.pkts[:0]
	return out
}

// DataCounters returns, for every data packet that reached the socket since the last TakeOutputs, the header
// counter (queued packets are released in order: the counters on one tunnel are consecutive). Must be called
// before TakeOutputs.
func (w *VerifHSWorld) PeekData() (idx []uint32, ctr []uint64, lens []int) {
	for _, p := range w.rec.pkts {
		var h header.H
		if err := h.Parse(p.b); err == nil && h.Type == header.Message {
			idx = append(idx, h.RemoteIndex)
			ctr = append(ctr, h.MessageCounter)
			lens = append(lens, len(p.b))
		}
	}
	return
}

// ---- canonical dump --------------------------------------------------------------------------------

type VerifHSInfo struct {
	ID     uint64
	Addrs  []uint64
	Local  uint32
	Remote uint32
	Relays []uint32
}

type VerifHSKV struct{ K, V uint64 }
type VerifHSKL struct {
	K uint64
	L []uint64
}

// VerifHSTunnel is what CheckAndComplete / handleCheckAndCompleteError read of a tunnel in Indexes.
type VerifHSTunnel struct {
	ID        uint64
	Initiator bool
	Pkt0      uint64 // responder tunnels: number of the stage-1 payload kept in HandshakePacket[0] (0: not a known payload)
	Time      uint64
	HasRemote bool
	Remote    uint64
}

type VerifHSBlocked struct {
	ID      uint64
	Blocked []uint64
}

type VerifHSDump struct {
	Infos   []VerifHSInfo // hostinfos some map points to
	Hosts   []VerifHSKV
	More    []VerifHSKL
	Indexes []VerifHSKV
	Remote  []VerifHSKV
	Relays  []VerifHSKV
	PVpn    []VerifHSKV
	PIdx    []VerifHSKV
	Tunnels []VerifHSTunnel
	Blocked []VerifHSBlocked
}

func (w *VerifHSWorld) idOf(h *HostInfo) uint64 {
	if h == nil {
		return VerifHSUnknown
	}
	if id, ok := w.ids[h]; ok {
		return id
	}
	return VerifHSUnknown
}

func verifHSSortKV(x []VerifHSKV) {
	sort.Slice(x, func(i, j int) bool { return x[i].K < x[j].K })
}

func (w *VerifHSWorld) pkt0Of(h *HostInfo) uint64 {
	p := h.HandshakePacket[handshakePacketStage0]
	if p == nil {
		return 0
	}
	for i, s := range w.stage1 {
		if bytes.Equal(s[header.Len:], p) {
			return uint64(i + 1)
		}
	}
	return 0
}

func (w *VerifHSWorld) Dump() VerifHSDump {
	var d VerifHSDump
	ref := map[uint64]*HostInfo{}
	note := func(h *HostInfo) uint64 {
		id := w.idOf(h)
		if h != nil {
			ref[id] = h
		}
		return id
	}
	w.hm.RLock()
	for a, h := range w.hm.Hosts {
		d.Hosts = append(d.Hosts, VerifHSKV{verifHSAddrNum(a), note(h)})
	}
	for a, l := range w.hm.moreHosts {
		kl := VerifHSKL{K: verifHSAddrNum(a)}
		for _, h := range l {
			kl.L = append(kl.L, note(h))
		}
		d.More = append(d.More, kl)
	}
	for i, h := range w.hm.Indexes {
		d.Indexes = append(d.Indexes, VerifHSKV{uint64(i), note(h)})
		t := VerifHSTunnel{ID: w.idOf(h), Time: h.lastHandshakeTime}
		if h.ConnectionState != nil {
			t.Initiator = h.ConnectionState.initiator
		}
		if !t.Initiator {
			t.Pkt0 = w.pkt0Of(h)
		}
		if r := h.GetRemote(); r.IsValid() {
			t.HasRemote, t.Remote = true, verifHSUnderlayNum(r)
		}
		d.Tunnels = append(d.Tunnels, t)
	}
	for i, h := range w.hm.RemoteIndexes {
		d.Remote = append(d.Remote, VerifHSKV{uint64(i), note(h)})
	}
	for i, h := range w.hm.Relays {
		d.Relays = append(d.Relays, VerifHSKV{uint64(i), note(h)})
	}
	w.hm.RUnlock()
	w.hsm.RLock()
	for a, hh := range w.hsm.vpnIps {
		id := note(hh.hostinfo)
		d.PVpn = append(d.PVpn, VerifHSKV{verifHSAddrNum(a), id})
		b := VerifHSBlocked{ID: id}
		if hh.hostinfo.remotes != nil {
			for _, x := range hh.hostinfo.remotes.CopyBlockedRemotes() {
				b.Blocked = append(b.Blocked, verifHSUnderlayNum(x))
			}
		}
		d.Blocked = append(d.Blocked, b)
	}
	for i, hh := range w.hsm.indexes {
		d.PIdx = append(d.PIdx, VerifHSKV{uint64(i), note(hh.hostinfo)})
	}
	w.hsm.RUnlock()

	ids := make([]uint64, 0, len(ref))
	for id := range ref {
		ids = append(ids, id)
	}
	sort.Slice(ids, func(i, j int) bool { return ids[i] < ids[j] })
	for _, id := range ids {
		h := ref[id]
		hi := VerifHSInfo{ID: id, Local: h.localIndexId, Remote: h.remoteIndexId}
		for _, a := range h.vpnAddrs {
			hi.Addrs = append(hi.Addrs, verifHSAddrNum(a))
		}
		hi.Relays = h.relayState.CopyRelayForIdxs()
		sort.Slice(hi.Relays, func(i, j int) bool { return hi.Relays[i] < hi.Relays[j] })
		d.Infos = append(d.Infos, hi)
	}
	verifHSSortKV(d.Hosts)
	sort.Slice(d.More, func(i, j int) bool { return d.More[i].K < d.More[j].K })
	verifHSSortKV(d.Indexes)
	verifHSSortKV(d.Remote)
	verifHSSortKV(d.Relays)
	verifHSSortKV(d.PVpn)
	verifHSSortKV(d.PIdx)
	sort.Slice(d.Tunnels, func(i, j int) bool { return d.Tunnels[i].ID < d.Tunnels[j].ID })
	sort.Slice(d.Blocked, func(i, j int) bool { return d.Blocked[i].ID < d.Blocked[j].ID })
	return d
}

// keep the bart import used when the firewall is not configured with rules
var _ = bart.Lite{}

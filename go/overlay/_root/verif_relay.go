//go:build verif && (comp_all || comp_relay)

package nebula

// Verification shim for property C39 (relays forward only for the pair they were set up for).
// It builds a REAL HostMap + relayManager + Interface (recording sockets, stand-in AEAD) and drives the real
// HandleControlMsg / StartRelays / unlockedAddHostInfo / DeleteHostInfo / readOutsidePackets. Only
// property-level observables are reported back: relay records, the hostmap's address lists and index maps,
// control messages that reached the wire (and on which tunnel), handshakes started, and where a relay
// packet is forwarded to.

import (
	"context"
	crand "crypto/rand"
	"crypto/ed25519"
	"fmt"
	"io"
	"log/slog"
	"net/netip"
	"sort"
	"time"

	"github.com/gaissmai/bart"
	"github.com/slackhq/nebula/cert"
	"github.com/slackhq/nebula/config"
	"github.com/slackhq/nebula/firewall"
	"github.com/slackhq/nebula/header"
	"github.com/slackhq/nebula/overlay/overlaytest"
	"github.com/slackhq/nebula/udp"
)

// ---- constants (T1) -----------------------------------------------------------------------------

const (
	VerifRelayRequested      = Requested
	VerifRelayPeerRequested  = PeerRequested
	VerifRelayEstablished    = Established
	VerifRelayDisestablished = Disestablished
	VerifRelayForwardingType = ForwardingType
	VerifRelayTerminalType   = TerminalType
	VerifRelayMaxHostInfos   = MaxHostInfosPerVpnIp
	VerifRelayCtlRequest     = int(NebulaControl_CreateRelayRequest)
	VerifRelayCtlResponse    = int(NebulaControl_CreateRelayResponse)
)

// ---- quiet logger ---------------------------------------------------------------------------------

type verifRelayLevel struct{}

func (verifRelayLevel) Enabled(context.Context, slog.Level) bool  { return true } // run the debug-only branches too
func (verifRelayLevel) Handle(context.Context, slog.Record) error { return nil }
func (h verifRelayLevel) WithAttrs([]slog.Attr) slog.Handler      { return h }
func (h verifRelayLevel) WithGroup(string) slog.Handler           { return h }

var verifRelayLog = slog.New(verifRelayLevel{})

// ---- scripted crypto/rand ---------------------------------------------------------------------------

// verifRelayRand serves 4-byte big-endian candidates from a script, then fresh values nobody uses.
type verifRelayRand struct {
	script   []uint32
	served   []uint32
	fallback *uint32
}

func (r *verifRelayRand) Read(b []byte) (int, error) {
	for i := 0; i+4 <= len(b); i += 4 {
		var v uint32
		if len(r.script) > 0 {
			v, r.script = r.script[0], r.script[1:]
		} else {
			*r.fallback++
			v = 0xE0000000 + *r.fallback
		}
		r.served = append(r.served, v)
		b[i], b[i+1], b[i+2], b[i+3] = byte(v>>24), byte(v>>16), byte(v>>8), byte(v)
	}
	return len(b), nil
}

// ---- stand-in AEAD and recording socket -------------------------------------------------------------

type verifRelayCipher struct{}

func (verifRelayCipher) EncryptDanger(out, ad, plaintext []byte, n uint64, nb []byte) ([]byte, error) {
	out = append(out, plaintext...)
	return append(out, make([]byte, 16)...), nil
}
func (verifRelayCipher) DecryptDanger(out, ad, ciphertext []byte, n uint64, nb []byte) ([]byte, error) {
	if len(ciphertext) < 16 {
		return nil, fmt.Errorf("verif: short")
	}
	return append(out, ciphertext[:len(ciphertext)-16]...), nil
}
func (verifRelayCipher) Overhead() int { return 16 }

type verifRelayPkt struct {
	b    []byte
	addr netip.AddrPort
}

type verifRelayConn struct {
	udp.NoopConn
	pkts []verifRelayPkt
}

func (c *verifRelayConn) WriteTo(b []byte, addr netip.AddrPort) error {
	c.pkts = append(c.pkts, verifRelayPkt{b: append([]byte(nil), b...), addr: addr})
	return nil
}

// ---- certificates (StartRelays reads the relay's certificate version) -----------------------------------

var verifRelayCerts [3]*cert.CachedCertificate

func verifRelayCert(version int) *cert.CachedCertificate {
	if verifRelayCerts[version] != nil {
		return verifRelayCerts[version]
	}
	pub, priv, err := ed25519.GenerateKey(nil)
	if err != nil {
		panic(err)
	}
	now := time.Unix(1_800_000_000, 0)
	ca := &cert.TBSCertificate{Version: cert.Version(version), Name: "verif-relay-ca", IsCA: true, NotBefore: now.Add(-time.Hour),
		NotAfter: now.Add(time.Hour), PublicKey: pub, Curve: cert.Curve_CURVE25519}
	cac, err := ca.Sign(nil, cert.Curve_CURVE25519, priv)
	if err != nil {
		panic(err)
	}
	hpub, _, _ := ed25519.GenerateKey(nil)
	tbs := &cert.TBSCertificate{Version: cert.Version(version), Name: "verif-relay-peer", NotBefore: now.Add(-time.Minute),
		NotAfter: now.Add(time.Minute), PublicKey: hpub[:32], Curve: cert.Curve_CURVE25519,
		Networks: []netip.Prefix{netip.MustParsePrefix("10.77.0.1/16")}}
	c, err := tbs.Sign(cac, cert.Curve_CURVE25519, priv)
	if err != nil {
		panic(err)
	}
	verifRelayCerts[version] = &cert.CachedCertificate{Certificate: c}
	return verifRelayCerts[version]
}

// ---- the world ----------------------------------------------------------------------------------------

// VerifRelayWorld is one node.
type VerifRelayWorld struct {
	hm       *HostMap
	ifce     *Interface
	rm       *relayManager
	conf     *config.C
	out      *verifRelayConn
	tunnels  []*HostInfo
	ids      map[*HostInfo]int
	me       []netip.Addr
	fallback uint32
	ctr      uint64
}

func verifRelayYaml(am bool) string { return fmt.Sprintf("relay:\n  am_relay: %v\n  use_relays: true\n", am) }

// VerifRelayNewWorld builds a node with the given overlay addresses; relay.am_relay goes through the real
// configuration code.
func VerifRelayNewWorld(me []netip.Addr, am bool) *VerifRelayWorld {
	l := verifRelayLog
	w := &VerifRelayWorld{out: &verifRelayConn{}, ids: map[*HostInfo]int{}, me: append([]netip.Addr(nil), me...)}
	w.hm = newHostMap(l)
	pr := []netip.Prefix{}
	w.hm.preferredRanges.Store(&pr)

	lh := &LightHouse{l: l, amLighthouse: true, addrMap: map[netip.Addr]*RemoteList{}, queryChan: make(chan netip.Addr, 64)}
	lighthouses := []netip.Addr{}
	staticList := map[netip.Addr]struct{}{}
	lh.localAddrsFn = func(*LocalAllowList) []netip.Addr { return nil }
	lh.lighthouses.Store(&lighthouses)
	lh.staticList.Store(&staticList)

	addrs := new(bart.Lite)
	nets := new(bart.Lite)
	for _, a := range me {
		addrs.Insert(netip.PrefixFrom(a, a.BitLen()))
	}
	// the overlay networks hold every address the harness uses as an overlay address, none of the underlay ones
	nets.Insert(netip.MustParsePrefix("10.0.0.0/8"))
	nets.Insert(netip.MustParsePrefix("fd00::/8"))

	w.ifce = &Interface{
		hostMap:            w.hm,
		inside:             &overlaytest.NoopTun{},
		outside:            w.out,
		writers:            []udp.Conn{w.out},
		firewall:           &Firewall{},
		lightHouse:         lh,
		pki:                &PKI{l: l},
		myVpnAddrs:         append([]netip.Addr(nil), me...),
		myVpnAddrsTable:    addrs,
		myVpnNetworksTable: nets,
		l:                  l,
	}
	w.ifce.tryPromoteEvery.Store(1 << 30)
	w.ifce.reQueryEvery.Store(1 << 30)
	w.ifce.handshakeManager = NewHandshakeManager(l, w.hm, lh, w.out, defaultHandshakeConfig)
	w.ifce.handshakeManager.f = w.ifce

	w.conf = config.NewC(l)
	if err := w.conf.LoadString(verifRelayYaml(am)); err != nil {
		panic(err)
	}
	punchy := NewPunchyFromConfig(l, w.conf, &udp.NoopConn{})
	punchy.hm = w.hm
	punchy.lh = lh
	cm := newConnectionManagerFromConfig(l, w.conf, w.hm, punchy)
	cm.intf = w.ifce
	w.ifce.connectionManager = cm
	w.rm = NewRelayManager(context.Background(), l, w.hm, w.conf)
	w.ifce.relayManager = w.rm
	return w
}

// SetAm reloads relay.am_relay through the real reload path.
func (w *VerifRelayWorld) SetAm(am bool) {
	if err := w.conf.ReloadConfigString(verifRelayYaml(am)); err != nil {
		panic(err)
	}
}

func (w *VerifRelayWorld) Am() bool { return w.rm.GetAmRelay() }

func verifRelayUnderlay(id int) netip.AddrPort {
	return netip.AddrPortFrom(netip.AddrFrom4([4]byte{192, 0, 2, byte(id%250 + 1)}), uint16(4000+id))
}

func verifRelayRemoteIndex(id int) uint32 { return 0x70000000 + uint32(id) }

// AddTunnel inserts a finished tunnel through the real unlockedAddHostInfo and returns its id.
func (w *VerifRelayWorld) AddTunnel(addrs []netip.Addr, local uint32, valid bool, v1 bool) int {
	id := len(w.tunnels)
	hi := &HostInfo{vpnAddrs: append([]netip.Addr(nil), addrs...), localIndexId: local, remoteIndexId: verifRelayRemoteIndex(id),
		relayState: RelayState{relayForByAddr: map[netip.Addr]*Relay{}, relayForByIdx: map[uint32]*Relay{}}}
	ver := 2
	if v1 {
		ver = 1
	}
	hi.ConnectionState = &ConnectionState{eKey: verifRelayCipher{}, dKey: verifRelayCipher{}, window: NewBits(ReplayWindow),
		peerCert: verifRelayCert(ver)}
	hi.remotes = NewRemoteList(hi.vpnAddrs, nil)
	if valid {
		r := verifRelayUnderlay(id)
		hi.remote.Store(&r)
	}
	w.tunnels = append(w.tunnels, hi)
	w.ids[hi] = id
	w.hm.Lock()
	w.hm.unlockedAddHostInfo(hi, w.ifce)
	w.hm.Unlock()
	return id
}

// DelTunnel is the real DeleteHostInfo.
func (w *VerifRelayWorld) DelTunnel(id int) { w.hm.DeleteHostInfo(w.tunnels[id]) }

// InsertVia is the real RelayState.InsertRelayTo.
func (w *VerifRelayWorld) InsertVia(id int, ip netip.Addr) { w.tunnels[id].relayState.InsertRelayTo(ip) }

// ForceRecord installs a relay record directly (table generation only: builds the situation a row describes).
func (w *VerifRelayWorld) ForceRecord(id int, peer netip.Addr, local, remote uint32, typ, state int) {
	hi := w.tunnels[id]
	w.hm.Lock()
	w.hm.Relays[local] = hi
	w.hm.Unlock()
	hi.relayState.InsertRelay(peer, local, &Relay{Type: typ, State: state, LocalIndex: local, RemoteIndex: remote, PeerAddr: peer})
}

// ---- what one operation did ---------------------------------------------------------------------------

// VerifRelaySend is a control message that reached the wire.
type VerifRelaySend struct {
	To       int // tunnel id it was written to (-1: none of ours)
	Typ      int
	V1       bool
	From, To2 netip.Addr
	Init     uint32
	Resp     uint32
}

type VerifRelayOut struct {
	Sends     []VerifRelaySend
	Other     int        // packets on the wire that are neither control messages nor relay data packets
	Relayed   int        // relay data packets (a message for a tunnel without a direct address went through its relay)
	Handshake netip.Addr // a handshake to this address is now pending (invalid: none new)
	Served    []uint32   // what crypto/rand delivered
	Panic     string
}

func (w *VerifRelayWorld) tunnelOf(remoteIndex uint32, addr netip.AddrPort) int {
	for id, hi := range w.tunnels {
		if hi.remoteIndexId == remoteIndex && hi.GetRemote() == addr && addr.IsValid() {
			return id
		}
	}
	return -1
}

func (w *VerifRelayWorld) pending() map[netip.Addr]bool {
	m := map[netip.Addr]bool{}
	hsm := w.ifce.handshakeManager
	hsm.RLock()
	for a := range hsm.vpnIps {
		m[a] = true
	}
	hsm.RUnlock()
	return m
}

func (w *VerifRelayWorld) observe(script []uint32, fn func()) (o VerifRelayOut) {
	w.out.pkts = nil
	before := w.pending()
	r := &verifRelayRand{script: script, fallback: &w.fallback}
	old := crand.Reader
	crand.Reader = io.Reader(r)
	func() {
		defer func() {
			crand.Reader = old
			if p := recover(); p != nil {
				o.Panic = fmt.Sprint(p)
			}
		}()
		fn()
	}()
	o.Served = r.served
	for a := range w.pending() {
		if !before[a] {
			o.Handshake = a
		}
	}
	// forget the pending handshake again: every operation is observed against an idle handshake manager
	hsm := w.ifce.handshakeManager
	hsm.Lock()
	hsm.vpnIps = map[netip.Addr]*HandshakeHostInfo{}
	hsm.indexes = map[uint32]*HandshakeHostInfo{}
	hsm.Unlock()
	for {
		select {
		case <-w.ifce.lightHouse.queryChan:
			continue
		default:
		}
		break
	}
	for _, p := range w.out.pkts {
		var hd header.H
		if err := hd.Parse(p.b); err == nil && hd.Type == header.Message && hd.Subtype == header.MessageRelay {
			o.Relayed++
			continue
		}
		if err := hd.Parse(p.b); err != nil || hd.Type != header.Control || len(p.b) < header.Len+16 {
			o.Other++
			continue
		}
		msg := &NebulaControl{}
		if err := msg.Unmarshal(p.b[header.Len : len(p.b)-16]); err != nil {
			o.Other++
			continue
		}
		s := VerifRelaySend{To: w.tunnelOf(hd.RemoteIndex, p.addr), Typ: int(msg.Type), Init: msg.InitiatorRelayIndex, Resp: msg.ResponderRelayIndex}
		if msg.OldRelayFromAddr > 0 || msg.OldRelayToAddr > 0 {
			s.V1 = true
			s.From = netip.AddrFrom4([4]byte{byte(msg.OldRelayFromAddr >> 24), byte(msg.OldRelayFromAddr >> 16), byte(msg.OldRelayFromAddr >> 8), byte(msg.OldRelayFromAddr)})
			s.To2 = netip.AddrFrom4([4]byte{byte(msg.OldRelayToAddr >> 24), byte(msg.OldRelayToAddr >> 16), byte(msg.OldRelayToAddr >> 8), byte(msg.OldRelayToAddr)})
		} else {
			if msg.RelayFromAddr != nil {
				s.From = protoAddrToNetAddr(msg.RelayFromAddr)
			}
			if msg.RelayToAddr != nil {
				s.To2 = protoAddrToNetAddr(msg.RelayToAddr)
			}
		}
		o.Sends = append(o.Sends, s)
	}
	w.out.pkts = nil
	return o
}

// VerifRelayWire is a control message as the harness wants it on the wire.
type VerifRelayWire struct {
	Typ            int
	OldFrom, OldTo uint32
	From, To       netip.Addr // invalid: field absent
	Init, Resp     uint32
}

func (m VerifRelayWire) Marshal() []byte {
	c := &NebulaControl{Type: NebulaControl_MessageType(m.Typ), InitiatorRelayIndex: m.Init, ResponderRelayIndex: m.Resp,
		OldRelayFromAddr: m.OldFrom, OldRelayToAddr: m.OldTo}
	if m.From.IsValid() {
		c.RelayFromAddr = netAddrToProtoAddr(m.From)
	}
	if m.To.IsValid() {
		c.RelayToAddr = netAddrToProtoAddr(m.To)
	}
	b, err := c.Marshal()
	if err != nil {
		panic(err)
	}
	return b
}

// Deliver hands an authenticated, decrypted control message received on tunnel id to the real HandleControlMsg.
func (w *VerifRelayWorld) Deliver(id int, raw []byte, script []uint32) VerifRelayOut {
	return w.observe(script, func() { w.rm.HandleControlMsg(w.tunnels[id], raw, w.ifce) })
}

// Start runs the real StartRelays for a pending handshake to vpn whose only known relay is `relay`.
func (w *VerifRelayWorld) Start(relay, vpn netip.Addr, script []uint32) VerifRelayOut {
	hi := &HostInfo{vpnAddrs: []netip.Addr{vpn}, remotes: NewRemoteList([]netip.Addr{vpn}, nil),
		relayState: RelayState{relayForByAddr: map[netip.Addr]*Relay{}, relayForByIdx: map[uint32]*Relay{}}}
	hi.remotes.relays = []netip.Addr{relay}
	hh := &HandshakeHostInfo{hostinfo: hi}
	return w.observe(script, func() { w.rm.StartRelays(w.ifce, vpn, hh, make([]byte, 48)) })
}

// ---- state dump -------------------------------------------------------------------------------------------

type VerifRelayRec struct {
	Peer          netip.Addr
	Local, Remote uint32
	Type, State   int
}

type VerifRelayTun struct {
	Recs       []VerifRelayRec // relayForByIdx, sorted by local index
	Via        []netip.Addr
	Consistent bool // relayForByAddr and relayForByIdx hold the same records
}

type VerifRelayHosts struct {
	Addr netip.Addr
	IDs  []int
}

type VerifRelayDump struct {
	Am      bool
	Tunnels []VerifRelayTun
	Hosts   []VerifRelayHosts // unlockedGetHostList per address; order of addresses not canonical
	Indexes map[uint32]int
	Relays  map[uint32]int
	Sound   bool // moreHosts[a][0] == Hosts[a], every listed hostinfo is one of ours
}

func (w *VerifRelayWorld) Dump() VerifRelayDump {
	d := VerifRelayDump{Am: w.rm.GetAmRelay(), Indexes: map[uint32]int{}, Relays: map[uint32]int{}, Sound: true}
	for _, hi := range w.tunnels {
		rs := &hi.relayState
		rs.RLock()
		t := VerifRelayTun{Consistent: len(rs.relayForByAddr) == len(rs.relayForByIdx), Via: append([]netip.Addr(nil), rs.relays...)}
		for idx, r := range rs.relayForByIdx {
			t.Recs = append(t.Recs, VerifRelayRec{Peer: r.PeerAddr, Local: r.LocalIndex, Remote: r.RemoteIndex, Type: r.Type, State: r.State})
			a, ok := rs.relayForByAddr[r.PeerAddr]
			if !ok || *a != *r || idx != r.LocalIndex {
				t.Consistent = false
			}
		}
		rs.RUnlock()
		sort.Slice(t.Recs, func(i, j int) bool { return t.Recs[i].Local < t.Recs[j].Local })
		d.Tunnels = append(d.Tunnels, t)
	}
	w.hm.RLock()
	defer w.hm.RUnlock()
	id := func(hi *HostInfo) int {
		if i, ok := w.ids[hi]; ok {
			return i
		}
		d.Sound = false
		return -1
	}
	for a, p := range w.hm.Hosts {
		l := w.hm.unlockedGetHostList(a)
		if len(l) == 0 || l[0] != p {
			d.Sound = false
		}
		h := VerifRelayHosts{Addr: a}
		for _, hi := range l {
			h.IDs = append(h.IDs, id(hi))
		}
		d.Hosts = append(d.Hosts, h)
	}
	for a := range w.hm.moreHosts {
		if _, ok := w.hm.Hosts[a]; !ok {
			d.Sound = false
		}
	}
	for i, hi := range w.hm.Indexes {
		d.Indexes[i] = id(hi)
	}
	for i, hi := range w.hm.Relays {
		d.Relays[i] = id(hi)
	}
	return d
}

// ---- forwarding probes ------------------------------------------------------------------------------------

// Probe answers, with the very lookups handleOutsideRelayPacket performs for a ForwardingType record, where a
// relay packet authenticated on tunnel id and carrying relay index idx would be re-sent.
func (w *VerifRelayWorld) Probe(id int, idx uint32) (target int, rec VerifRelayRec, ok bool) {
	hostinfo := w.tunnels[id]
	relay, found := hostinfo.relayState.QueryRelayForByIdx(idx)
	if !found {
		return -1, rec, false
	}
	switch relay.Type {
	case ForwardingType:
		targetHI, targetRelay, err := w.hm.QueryVpnAddrsRelayFor(hostinfo.vpnAddrs, relay.PeerAddr)
		if err != nil {
			return -1, rec, false
		}
		if targetRelay.State == Established {
			switch targetRelay.Type {
			case ForwardingType:
				t, known := w.ids[targetHI]
				if !known {
					t = -1
				}
				return t, VerifRelayRec{Peer: targetRelay.PeerAddr, Local: targetRelay.LocalIndex, Remote: targetRelay.RemoteIndex,
					Type: targetRelay.Type, State: targetRelay.State}, true
			}
		}
	}
	return -1, rec, false
}

// VerifRelayFwd is what the real receive path did with one relay packet.
type VerifRelayFwd struct {
	Source  int    // tunnel HostMap.Relays resolved the index to (-1: none)
	Written int    // relay packets written
	To      int    // tunnel the (first) packet was written to, by underlay address (-1: unknown / no valid address)
	Index   uint32 // relay index in its header
	Intact  bool   // the inner payload was forwarded unchanged
	Other   int    // anything else on the wire
	Panic   string
}

// ProbePacket sends a well-formed, authenticated relay packet carrying relay index idx through the real
// readOutsidePackets (-> handleOutsideRelayPacket -> SendVia) and reports what was written.
func (w *VerifRelayWorld) ProbePacket(idx uint32) (o VerifRelayFwd) {
	o.Source, o.To = -1, -1
	src := w.hm.QueryRelayIndex(idx)
	var via ViaSender
	if src != nil {
		if i, ok := w.ids[src]; ok {
			o.Source = i
		}
		via.UdpAddr = src.GetRemote()
	}
	w.ctr++
	inner := []byte{0xde, 0xad, 0xbe, 0xef, byte(w.ctr), 1, 2, 3} // shorter than a nebula header: a terminal relay drops it unparsed
	pkt := header.Encode(make([]byte, header.Len, 256), header.Version, header.Message, header.MessageRelay, idx, w.ctr)
	pkt = append(pkt, inner...)
	pkt = append(pkt, make([]byte, 16)...)
	rxc := &rxContext{q: 0, scratch: make([]byte, mtu), nb: make([]byte, 12, 12), h: &header.H{}, fwPacket: &firewall.ParsedPacket{},
		hostmapCache: map[uint32]*HostInfo{}}
	w.out.pkts = nil
	func() {
		defer func() {
			if p := recover(); p != nil {
				o.Panic = fmt.Sprint(p)
			}
		}()
		w.ifce.readOutsidePackets(via, pkt, rxc)
	}()
	for _, p := range w.out.pkts {
		var hd header.H
		if err := hd.Parse(p.b); err == nil && hd.Type == header.RecvError {
			continue // an unknown relay index is answered with recv_error
		}
		if err := hd.Parse(p.b); err != nil || hd.Type != header.Message || hd.Subtype != header.MessageRelay {
			o.Other++
			continue
		}
		if o.Written == 0 {
			o.Index = hd.RemoteIndex
			for id, hi := range w.tunnels {
				if p.addr.IsValid() && hi.GetRemote() == p.addr {
					o.To = id
				}
			}
			body := p.b[header.Len:]
			o.Intact = len(body) == len(inner)+16 && string(body[:len(inner)]) == string(inner)
		}
		o.Written++
	}
	w.out.pkts = nil
	return o
}

// VerifRelayAllocTries measures the `for range N` bound of AddRelay: every candidate collides.
func VerifRelayAllocTries() int {
	w := VerifRelayNewWorld([]netip.Addr{netip.MustParseAddr("10.0.0.1")}, false)
	id := w.AddTunnel([]netip.Addr{netip.MustParseAddr("10.0.0.2")}, 5, true, false)
	w.ForceRecord(id, netip.MustParseAddr("10.0.0.3"), 77, 0, ForwardingType, Requested)
	script := make([]uint32, 500)
	for i := range script {
		script[i] = 77
	}
	var err error
	o := w.observe(script, func() {
		_, err = AddRelay(verifRelayLog, w.tunnels[id], w.hm, netip.MustParseAddr("10.0.0.4"), nil, TerminalType, Requested)
	})
	if err == nil || o.Panic != "" {
		return -1
	}
	return len(o.Served)
}

func (w *VerifRelayWorld) NumTunnels() int { return len(w.tunnels) }

//go:build verif && (comp_all || comp_decrypt)

package nebula

import (
	"errors"
	"log/slog"

	"github.com/slackhq/nebula/noiseutil"
)

var verifDecryptLogger = slog.New(slog.DiscardHandler)

// VerifConn is a real ConnectionState reduced to what Decrypt / VerifyRelay touch: the receive cipher,
// the replay window and decryptLock. It is built the way newConnectionStateFromResult builds it
// (window: NewBits(ReplayWindow)); the cipher is supplied by the harness.
type VerifConn struct{ cs *ConnectionState }

func VerifNewConn(dKey noiseutil.CipherState) *VerifConn {
	return &VerifConn{cs: &ConnectionState{dKey: dKey, window: NewBits(ReplayWindow)}}
}

// Results are mapped to an enum: 0 = delivered, 1 = ErrAlreadySeen, 2 = any other error (authentication).
func verifDecryptCode(err error) int {
	switch {
	case err == nil:
		return 0
	case errors.Is(err, ErrAlreadySeen):
		return 1
	default:
		return 2
	}
}

func (v *VerifConn) Decrypt(counter uint64, packet, nb []byte) ([]byte, int) {
	out, err := v.cs.Decrypt(verifDecryptLogger, counter, packet, nb)
	return out, verifDecryptCode(err)
}

func (v *VerifConn) VerifyRelay(counter uint64, packet, nb []byte) int {
	return verifDecryptCode(v.cs.VerifyRelay(verifDecryptLogger, counter, packet, nb))
}

func (v *VerifConn) WindowCurrent() uint64 { return v.cs.window.current }
func (v *VerifConn) WindowWords() []uint64 { return append([]uint64(nil), v.cs.window.bits...) }

const VerifDecryptReplayWindow uint64 = ReplayWindow

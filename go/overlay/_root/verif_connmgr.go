//go:build verif && (comp_all || comp_connmgr)

package nebula

// Verification shim for property C30 (tunnel teardown decisions follow the liveness policy).
// It builds a REAL connectionManager + HostMap + HostInfo + PKI (real CAPool, real signed certificates)
// in a requested situation and calls the real makeTrafficDecision / doTrafficCheck / tryRehandshake /
// shouldSwapPrimary with an explicit `now`. Only property-level effects are reported back: the decision,
// hostmap membership, pendingDeletion, which interval the tunnel was re-armed with, punches and
// test / close-tunnel packets that reached the (recording) sockets, handshakes started.

import (
	"context"
	"crypto/ed25519"
	"errors"
	"fmt"
	"log/slog"
	"net/netip"
	"strings"
	"time"

	"github.com/slackhq/nebula/cert"
	"github.com/slackhq/nebula/config"
	"github.com/slackhq/nebula/header"
	"github.com/slackhq/nebula/overlay/overlaytest"
	"github.com/slackhq/nebula/udp"
)

// ---- constants (T1) ---------------------------------------------------------------------------

const (
	VerifCMRejectAfterMessages      = RejectAfterMessages
	VerifCMRehandshakeAfterMessages = RehandshakeAfterMessages

	VerifCMDoNothing      = int(doNothing)
	VerifCMDeleteTunnel   = int(deleteTunnel)
	VerifCMCloseTunnel    = int(closeTunnel)
	VerifCMSwapPrimary    = int(swapPrimary)
	VerifCMMigrateRelays  = int(migrateRelays)
	VerifCMTryRehandshake = int(tryRehandshake)
	VerifCMSendTestPacket = int(sendTestPacket)
)

// VerifCMDefaults probes the defaults a connectionManager takes from an empty configuration.
func VerifCMDefaults() (check, pending, inactivity time.Duration, dropInactive bool, disconnectInvalid bool) {
	c := config.NewC(verifCMLog(false))
	hm := newHostMap(verifCMLog(false))
	p := NewPunchyFromConfig(verifCMLog(false), c, udp.NoopConn{})
	cm := newConnectionManagerFromConfig(verifCMLog(false), c, hm, p)
	f := &Interface{l: verifCMLog(false)}
	f.reloadDisconnectInvalid(c)
	return cm.checkInterval, cm.pendingDeletionInterval, cm.getInactivityTimeout(), cm.dropInactive.Load(), f.disconnectInvalid.Load()
}

type verifCMLevel struct{ debug bool }

func (h verifCMLevel) Enabled(_ context.Context, l slog.Level) bool {
	return h.debug || l >= slog.LevelInfo
}
func (h verifCMLevel) Handle(context.Context, slog.Record) error { return nil }
func (h verifCMLevel) WithAttrs([]slog.Attr) slog.Handler        { return h }
func (h verifCMLevel) WithGroup(string) slog.Handler             { return h }

// verifCMLog is a logger that discards everything; with debug it still reports Debug as enabled, so the
// debug-only branches of the code under test run.
func verifCMLog(debug bool) *slog.Logger { return slog.New(verifCMLevel{debug: debug}) }

// ---- certificate material ---------------------------------------------------------------------

type verifCMCA struct {
	crt  cert.Certificate
	priv ed25519.PrivateKey
}

// VerifCMMaterial holds real certificate authorities and hands out real signed certificates.
type VerifCMMaterial struct {
	Base  time.Time
	cas   []verifCMCA
	peers map[string]*VerifCMPeerCert
	local map[string]cert.Certificate
	seq   int
	rnd   func([]byte)
}

// VerifCMPeerCert is a peer certificate together with everything needed to get a CachedCertificate for it.
type VerifCMPeerCert struct {
	Crt         cert.Certificate
	CA          int
	Fingerprint string
	NotBefore   time.Time
	NotAfter    time.Time
	Version     int
	cc          *cert.CachedCertificate
}

type verifCMReader struct{ f func([]byte) }

func (r verifCMReader) Read(b []byte) (int, error) { r.f(b); return len(b), nil }

// VerifCMNewMaterial creates nCA authorities valid in [base-1h, base+caLife[i]]. rnd fills key material
// (deterministic per seed).
func VerifCMNewMaterial(base time.Time, caLife []time.Duration, rnd func([]byte)) *VerifCMMaterial {
	m := &VerifCMMaterial{Base: base, peers: map[string]*VerifCMPeerCert{}, local: map[string]cert.Certificate{}, rnd: rnd}
	for i, life := range caLife {
		pub, priv, err := ed25519.GenerateKey(verifCMReader{rnd})
		if err != nil {
			panic(err)
		}
		tbs := &cert.TBSCertificate{Version: cert.Version1, Name: fmt.Sprintf("verif-ca-%d", i), IsCA: true,
			NotBefore: base.Add(-time.Hour), NotAfter: base.Add(life), PublicKey: pub, Curve: cert.Curve_CURVE25519}
		if i%2 == 1 {
			tbs.Version = cert.Version2
		}
		c, err := tbs.Sign(nil, cert.Curve_CURVE25519, priv)
		if err != nil {
			panic(err)
		}
		m.cas = append(m.cas, verifCMCA{crt: c, priv: priv})
	}
	return m
}

func (m *VerifCMMaterial) NumCAs() int { return len(m.cas) }

// CANotAfter is the end of validity of authority i.
func (m *VerifCMMaterial) CANotAfter(i int) time.Time { return m.cas[i].crt.NotAfter() }

func (m *VerifCMMaterial) sign(ca, version int, name string, nets []netip.Prefix, nb, na time.Time) cert.Certificate {
	pub, _, err := ed25519.GenerateKey(verifCMReader{m.rnd})
	if err != nil {
		panic(err)
	}
	// the host key is an X25519 public key in a real deployment; the connection manager never looks at it
	tbs := &cert.TBSCertificate{Version: cert.Version(version), Name: name, Networks: nets, NotBefore: nb, NotAfter: na,
		PublicKey: pub[:32], Curve: cert.Curve_CURVE25519}
	c, err := tbs.Sign(m.cas[ca].crt, cert.Curve_CURVE25519, m.cas[ca].priv)
	if err != nil {
		panic(fmt.Sprintf("verif connmgr: cannot sign %s: %v", name, err))
	}
	return c
}

// PeerCert returns (cached by its parameters) a peer certificate signed by authority ca, valid in
// [Base+nbOff, Base+naOff], for the given overlay networks.
func (m *VerifCMMaterial) PeerCert(ca, version int, nets []netip.Prefix, nbOff, naOff time.Duration) *VerifCMPeerCert {
	var sb strings.Builder
	fmt.Fprintf(&sb, "%d/%d/%d/%d", ca, version, nbOff, naOff)
	for _, n := range nets {
		sb.WriteString("/" + n.String())
	}
	key := sb.String()
	if p, ok := m.peers[key]; ok {
		return p
	}
	m.seq++
	c := m.sign(ca, version, fmt.Sprintf("peer-%d", m.seq), nets, m.Base.Add(nbOff), m.Base.Add(naOff))
	fp, err := c.Fingerprint()
	if err != nil {
		panic(err)
	}
	p := &VerifCMPeerCert{Crt: c, CA: ca, Fingerprint: fp, NotBefore: m.Base.Add(nbOff), NotAfter: m.Base.Add(naOff), Version: version}
	m.peers[key] = p
	return p
}

// LocalCert returns one of our own certificates: version 1 or 2, `variant` distinguishes re-issued
// certificates (same networks, different signature).
func (m *VerifCMMaterial) LocalCert(version, variant int, nets []netip.Prefix) cert.Certificate {
	var sb strings.Builder
	fmt.Fprintf(&sb, "%d/%d", version, variant)
	for _, n := range nets {
		sb.WriteString("/" + n.String())
	}
	key := sb.String()
	if c, ok := m.local[key]; ok {
		return c
	}
	c := m.sign(0, version, fmt.Sprintf("me-%d", variant), nets, m.Base.Add(-time.Hour), m.Base.Add(time.Duration(30+variant)*time.Minute))
	m.local[key] = c
	return c
}

// ---- the world --------------------------------------------------------------------------------

type verifCMPkt struct {
	b    []byte
	addr netip.AddrPort
}

type verifCMRecConn struct {
	udp.NoopConn
	pkts []verifCMPkt
}

func (c *verifCMRecConn) WriteTo(b []byte, addr netip.AddrPort) error {
	c.pkts = append(c.pkts, verifCMPkt{b: append([]byte(nil), b...), addr: addr})
	return nil
}

// verifCMCipher stands in for the AEAD: the connection manager never looks at ciphertext, only whether a
// packet could be produced.
type verifCMCipher struct{}

func (verifCMCipher) EncryptDanger(out, ad, plaintext []byte, n uint64, nb []byte) ([]byte, error) {
	out = append(out, plaintext...)
	return append(out, make([]byte, 16)...), nil
}
func (verifCMCipher) DecryptDanger(out, ad, ciphertext []byte, n uint64, nb []byte) ([]byte, error) {
	return nil, fmt.Errorf("verif: not used")
}
func (verifCMCipher) Overhead() int { return 16 }

// VerifCMConfig is the node configuration as it would appear in config.yml.
type VerifCMConfig struct {
	CheckIntervalS    int
	PendingIntervalS  int
	InactivityTimeout time.Duration
	DropInactive      bool
	DisconnectInvalid bool
	PunchAll          bool // punchy.target_all_remotes
}

func (c VerifCMConfig) yaml() string {
	return fmt.Sprintf("pki:\n  disconnect_invalid: %v\ntunnels:\n  drop_inactive: %v\n  inactivity_timeout: %s\n"+
		"timers:\n  connection_alive_interval: %d\n  pending_deletion_interval: %d\n"+
		"punchy:\n  punch: true\n  target_all_remotes: %v\n",
		c.DisconnectInvalid, c.DropInactive, c.InactivityTimeout.String(), c.CheckIntervalS, c.PendingIntervalS, c.PunchAll)
}

// VerifCMWorld is one node: hostmap, interface, pki, punchy and the connection manager under test.
type VerifCMWorld struct {
	m       *VerifCMMaterial
	conf    *config.C
	cfg     VerifCMConfig
	hm      *HostMap
	ifce    *Interface
	cm      *connectionManager
	lh      *LightHouse
	punch   *verifCMRecConn
	outside *verifCMRecConn
	tunnels []*HostInfo
	debug   bool
	tick    time.Duration
	ticks   int
}

// VerifCMNewWorld builds a node with overlay address myAddr. The connection manager, punchy and the
// disconnect_invalid switch are configured through the real configuration code from cfg.
func VerifCMNewWorld(m *VerifCMMaterial, myAddr netip.Addr, cfg VerifCMConfig, debug bool) *VerifCMWorld {
	l := verifCMLog(debug)
	w := &VerifCMWorld{m: m, cfg: cfg, debug: debug, punch: &verifCMRecConn{}, outside: &verifCMRecConn{}}
	w.hm = newHostMap(l)
	pr := []netip.Prefix{}
	w.hm.preferredRanges.Store(&pr)

	lh := &LightHouse{l: l, addrMap: map[netip.Addr]*RemoteList{}, queryChan: make(chan netip.Addr, 64)}
	lighthouses := []netip.Addr{}
	staticList := map[netip.Addr]struct{}{}
	lh.localAddrsFn = func(*LocalAllowList) []netip.Addr { return nil }
	lh.lighthouses.Store(&lighthouses)
	lh.staticList.Store(&staticList)
	w.lh = lh

	w.ifce = &Interface{
		hostMap:    w.hm,
		inside:     &overlaytest.NoopTun{},
		outside:    w.outside,
		writers:    []udp.Conn{w.outside},
		firewall:   &Firewall{},
		lightHouse: lh,
		pki:        &PKI{l: l},
		myVpnAddrs: []netip.Addr{myAddr},
		l:          l,
	}
	w.newHandshakeManager()

	w.conf = config.NewC(l)
	if err := w.conf.LoadString(cfg.yaml()); err != nil {
		panic(err)
	}
	punchy := NewPunchyFromConfig(l, w.conf, w.punch)
	punchy.hm = w.hm
	punchy.lh = lh
	w.cm = newConnectionManagerFromConfig(l, w.conf, w.hm, punchy)
	w.cm.intf = w.ifce
	w.ifce.connectionManager = w.cm
	w.ifce.reloadDisconnectInvalid(w.conf)
	w.conf.RegisterReloadCallback(w.ifce.reloadDisconnectInvalid)
	return w
}

func (w *VerifCMWorld) newHandshakeManager() {
	w.ifce.handshakeManager = NewHandshakeManager(w.ifce.l, w.hm, w.lh, w.outside, defaultHandshakeConfig)
}

// Reconfigure goes through the real reload path (config.ReloadConfigString -> registered callbacks).
func (w *VerifCMWorld) Reconfigure(cfg VerifCMConfig) {
	cfg.CheckIntervalS, cfg.PendingIntervalS = w.cfg.CheckIntervalS, w.cfg.PendingIntervalS // not reloadable
	if cfg == w.cfg {
		return
	}
	if err := w.conf.ReloadConfigString(cfg.yaml()); err != nil {
		panic(err)
	}
	w.cfg = cfg
}

// SetCAPool installs (as a pki reload would) a CA pool holding the listed authorities and blocklist.
// A nil list of authorities installs no pool at all.
func (w *VerifCMWorld) SetCAPool(cas []int, blocklist []string) {
	if cas == nil {
		w.ifce.pki.caPool.Store(nil)
		return
	}
	w.ifce.pki.caPool.Store(w.m.pool(cas, blocklist))
}

func (m *VerifCMMaterial) pool(cas []int, blocklist []string) *cert.CAPool {
	p := cert.NewCAPool()
	for _, i := range cas {
		// AddCA keeps an authority that is expired on the wall clock and says so (as a pki load does); the clock
		// that matters here is the explicit `now` of each check
		if err := p.AddCA(m.cas[i].crt); err != nil && !errors.Is(err, cert.ErrExpired) {
			panic(err)
		}
	}
	for _, b := range blocklist {
		p.BlocklistFingerprint(b)
	}
	return p
}

// SetCertState installs our own certificates (nil = none of that version) and the version we initiate with.
func (w *VerifCMWorld) SetCertState(v1, v2 cert.Certificate, initiating int) {
	w.ifce.pki.cs.Store(&CertState{v1Cert: v1, v2Cert: v2, initiatingVersion: cert.Version(initiating), privateKey: []byte{}})
}

// VerifCMTunnel describes one established tunnel to put into the hostmap.
type VerifCMTunnel struct {
	VpnAddrs    []netip.Addr
	LocalIndex  uint32
	RemoteIndex uint32
	Remote      netip.AddrPort   // current underlay address
	Remotes     []netip.AddrPort // every known underlay address (includes Remote)
	Peer        *VerifCMPeerCert // nil: no peer certificate recorded
	MyCert      cert.Certificate // the certificate we used in the handshake
	Counter     uint64
	Register    bool // add to the hostmap (false: a tunnel the hostmap does not know)
}

// AddTunnel inserts the tunnel through the real HostMap insertion (the newest tunnel becomes primary) and
// returns a handle.
func (w *VerifCMWorld) AddTunnel(t VerifCMTunnel) int {
	hi := &HostInfo{vpnAddrs: append([]netip.Addr(nil), t.VpnAddrs...), localIndexId: t.LocalIndex, remoteIndexId: t.RemoteIndex,
		relayState: RelayState{relayForByAddr: map[netip.Addr]*Relay{}, relayForByIdx: map[uint32]*Relay{}}}
	cs := &ConnectionState{myCert: t.MyCert, eKey: verifCMCipher{}, dKey: verifCMCipher{}, window: NewBits(ReplayWindow)}
	if t.Peer != nil {
		// a real verification at a time the certificate is valid, against a pool that trusts its authority
		if t.Peer.cc == nil {
			cc, err := w.m.pool([]int{t.Peer.CA}, nil).VerifyCertificate(t.Peer.NotBefore.Add(time.Nanosecond), t.Peer.Crt)
			if err != nil {
				panic(fmt.Sprintf("verif connmgr: peer certificate does not verify: %v", err))
			}
			t.Peer.cc = cc
		}
		cs.peerCert = t.Peer.cc
	}
	cs.messageCounter.Store(t.Counter)
	hi.ConnectionState = cs
	hi.remotes = NewRemoteList(hi.vpnAddrs, nil)
	for i, r := range t.Remotes {
		owner := netip.AddrFrom4([4]byte{198, 51, 100, byte(i + 1)})
		hi.remotes.LearnRemote(owner, r)
	}
	if t.Remote.IsValid() {
		r := t.Remote
		hi.remote.Store(&r)
	}
	if t.Register {
		w.hm.Lock()
		w.hm.unlockedAddHostInfo(hi, w.ifce)
		w.hm.Unlock()
	}
	w.tunnels = append(w.tunnels, hi)
	return len(w.tunnels) - 1
}

func (w *VerifCMWorld) In(h int)  { w.cm.In(w.tunnels[h]) }
func (w *VerifCMWorld) Out(h int) { w.cm.Out(w.tunnels[h]) }

func (w *VerifCMWorld) SetCounter(h int, v uint64) {
	w.tunnels[h].ConnectionState.messageCounter.Store(v)
}
func (w *VerifCMWorld) Counter(h int) uint64 {
	return w.tunnels[h].ConnectionState.messageCounter.Load()
}

// Force puts the per-tunnel liveness fields into a requested state (table generation only).
func (w *VerifCMWorld) Force(h int, in, out, pendingDeletion bool, lastUsed time.Time) {
	hi := w.tunnels[h]
	hi.in.Store(in)
	hi.out.Store(out)
	hi.pendingDeletion.Store(pendingDeletion)
	hi.lastUsed = lastUsed
}

// VerifCMPre is what the implementation holds for a tunnel before a check.
type VerifCMPre struct {
	Known           bool // in HostMap.Indexes under its local index
	Primary         bool // HostMap.Hosts[first overlay address] is this tunnel
	In, Out         bool
	PendingDeletion bool
	LastUsedZero    bool
	LastUsed        time.Time
}

func (w *VerifCMWorld) Pre(h int) VerifCMPre {
	hi := w.tunnels[h]
	w.hm.RLock()
	defer w.hm.RUnlock()
	p := w.hm.Hosts[hi.vpnAddrs[0]]
	return VerifCMPre{Known: w.hm.Indexes[hi.localIndexId] == hi, Primary: p == hi, In: hi.in.Load(), Out: hi.out.Load(),
		PendingDeletion: hi.pendingDeletion.Load(), LastUsedZero: hi.lastUsed.IsZero(), LastUsed: hi.lastUsed}
}

// SwapEligible is the real shouldSwapPrimary.
func (w *VerifCMWorld) SwapEligible(h int) bool { return w.cm.shouldSwapPrimary(w.tunnels[h]) }

// VerifCMObs is what one check did, in property-level terms.
type VerifCMObs struct {
	Decision     int  // makeTrafficDecision's decision (Decide only; -1 for Check)
	RetNil       bool // makeTrafficDecision returned no hostinfo (Decide only)
	PendingAfter bool
	Timer        int  // 0 not re-armed, 1 re-armed with the check interval, 2 with the pending-deletion interval, 3 anything else
	PunchOne     bool // exactly one punch, to the tunnel's current remote
	PunchAll     bool // one punch to every known remote (and there are at least two)
	PunchN       int
	TestPkts     int // header.Test/TestRequest packets for this tunnel on the wire
	ClosePkts    int // header.CloseTunnel packets for this tunnel on the wire
	OtherPkts    int
	KnownAfter   bool // still in HostMap.Indexes and reachable from HostMap.Hosts
	PrimaryAfter bool // HostMap.Hosts[first overlay address] is this tunnel
	Touched      bool // lastUsed was set to now
	InAfter      bool
	OutAfter     bool
	Handshake    int // 0 none, 1 a handshake to the peer was started, 2 started with the peer's certificate version
	Panic        string
}

const (
	verifCMRefCheck   = uint32(0xfffffff1)
	verifCMRefPending = uint32(0xfffffff2)
)

func (w *VerifCMWorld) prepare() {
	// a fresh wheel holding two reference entries, so that "which interval" is read off the wheel's own behaviour
	minD := min(time.Millisecond*500, w.cm.checkInterval, w.cm.pendingDeletionInterval)
	maxD := max(w.cm.checkInterval, w.cm.pendingDeletionInterval)
	w.cm.trafficTimer = NewLockingTimerWheel[uint32](minD, maxD)
	w.tick, w.ticks = minD, int(maxD/minD)+4
	w.cm.trafficTimer.Add(verifCMRefCheck, w.cm.checkInterval)
	w.cm.trafficTimer.Add(verifCMRefPending, w.cm.pendingDeletionInterval)
	w.punch.pkts = nil
	w.outside.pkts = nil
	w.newHandshakeManager()
}

func (w *VerifCMWorld) timerOf(idx uint32) int {
	tw := w.cm.trafficTimer
	tick, n := w.tick, w.ticks
	t0 := time.Unix(1_000_000, 0)
	tw.Advance(t0)
	at := map[uint32][]int{}
	for k := 1; k <= n; k++ {
		tw.Advance(t0.Add(time.Duration(k) * tick))
		for {
			v, ok := tw.Purge()
			if !ok {
				break
			}
			at[v] = append(at[v], k)
		}
	}
	mine := at[idx]
	switch {
	case len(mine) == 0:
		return 0
	case len(mine) == 1 && len(at[verifCMRefCheck]) == 1 && mine[0] == at[verifCMRefCheck][0]:
		return 1
	case len(mine) == 1 && len(at[verifCMRefPending]) == 1 && mine[0] == at[verifCMRefPending][0]:
		return 2
	}
	return 3
}

func (w *VerifCMWorld) collect(h int, now time.Time, o *VerifCMObs) {
	hi := w.tunnels[h]
	o.PendingAfter = hi.pendingDeletion.Load()
	o.InAfter, o.OutAfter = hi.in.Load(), hi.out.Load()
	o.Touched = hi.lastUsed.Equal(now)
	o.Timer = w.timerOf(hi.localIndexId)
	// punches
	o.PunchN = len(w.punch.pkts)
	cur := hi.GetRemote()
	if o.PunchN == 1 && w.punch.pkts[0].addr == cur {
		o.PunchOne = true
	}
	all := hi.remotes.CopyAddrs(w.hm.GetPreferredRanges())
	if len(all) >= 2 && o.PunchN == len(all) {
		seen := map[netip.AddrPort]int{}
		for _, p := range w.punch.pkts {
			seen[p.addr]++
		}
		ok := true
		for _, a := range all {
			if seen[a] != 1 {
				ok = false
			}
		}
		o.PunchAll = ok
	}
	// packets on the wire
	for _, p := range w.outside.pkts {
		var hd header.H
		if err := hd.Parse(p.b); err != nil || hd.RemoteIndex != hi.remoteIndexId || p.addr != cur {
			o.OtherPkts++
			continue
		}
		switch {
		case hd.Type == header.Test && hd.Subtype == header.TestRequest:
			o.TestPkts++
		case hd.Type == header.CloseTunnel:
			o.ClosePkts++
		default:
			o.OtherPkts++
		}
	}
	// hostmap
	w.hm.RLock()
	inIdx := w.hm.Indexes[hi.localIndexId] == hi
	first := w.hm.Hosts[hi.vpnAddrs[0]]
	reachable := false
	for _, a := range hi.vpnAddrs {
		if w.hm.Hosts[a] == hi {
			reachable = true
		}
		for _, x := range w.hm.moreHosts[a] {
			if x == hi {
				reachable = true
			}
		}
	}
	w.hm.RUnlock()
	o.KnownAfter = inIdx && reachable
	if inIdx != reachable {
		o.Panic = "hostmap holds the tunnel in only one of Indexes / Hosts"
	}
	o.PrimaryAfter = first == hi
	// handshake
	if hh := w.ifce.handshakeManager.queryVpnIp(hi.vpnAddrs[0]); hh != nil {
		o.Handshake = 1
		if hh.initiatingVersionOverride != 0 {
			o.Handshake = 2
		}
	}
	w.drain()
}

func (w *VerifCMWorld) drain() {
	for {
		select {
		case <-w.lh.queryChan:
		default:
			return
		}
	}
}

// Decide calls the real makeTrafficDecision for the tunnel's local index.
func (w *VerifCMWorld) Decide(h int, now time.Time) (o VerifCMObs) {
	w.prepare()
	defer func() {
		if r := recover(); r != nil {
			o.Panic = fmt.Sprint(r)
		}
	}()
	d, hi, _ := w.cm.makeTrafficDecision(w.tunnels[h].localIndexId, now)
	o.Decision = int(d)
	o.RetNil = hi == nil
	w.collect(h, now, &o)
	return o
}

// Check calls the real doTrafficCheck for the tunnel's local index.
func (w *VerifCMWorld) Check(h int, now time.Time) (o VerifCMObs) {
	w.prepare()
	o.Decision = -1
	defer func() {
		if r := recover(); r != nil {
			o.Panic = fmt.Sprint(r)
		}
	}()
	w.cm.doTrafficCheck(w.tunnels[h].localIndexId, []byte(""), make([]byte, 12, 12), make([]byte, mtu), now)
	w.collect(h, now, &o)
	return o
}

// Rehandshake calls the real tryRehandshake: 0 nothing, 1 handshake started, 2 started with the peer's version.
func (w *VerifCMWorld) Rehandshake(h int) (res int, pnc string) {
	w.prepare()
	defer func() {
		if r := recover(); r != nil {
			pnc = fmt.Sprint(r)
		}
	}()
	hi := w.tunnels[h]
	w.cm.tryRehandshake(hi)
	if hh := w.ifce.handshakeManager.queryVpnIp(hi.vpnAddrs[0]); hh != nil {
		res = 1
		if hh.initiatingVersionOverride != 0 {
			res = 2
		}
	}
	w.drain()
	return res, ""
}

//go:build verif && (comp_all || comp_lighthouse)

package nebula

// Verification shim for C35 (component lighthouse): builds a real LightHouse from a real config, feeds
// marshalled NebulaMeta messages through the real LightHouseHandler.HandleRequest with a recording EncWriter,
// records every job handed to the real Punchy scheduler, and returns canonical dumps of LightHouse.addrMap.
// Nothing here re-implements lighthouse logic.

import (
	"context"
	"fmt"
	"log/slog"
	"net/netip"
	"sort"
	"strings"

	"github.com/gaissmai/bart"
	"github.com/slackhq/nebula/cert"
	"github.com/slackhq/nebula/config"
	"github.com/slackhq/nebula/header"
	"github.com/slackhq/nebula/udp"
)

// T1 constants
const VerifC35MaxRemotes = MaxRemotes

var VerifC35Types = map[string]int32{
	"t_none": int32(NebulaMeta_None), "t_host_query": int32(NebulaMeta_HostQuery), "t_host_query_reply": int32(NebulaMeta_HostQueryReply),
	"t_host_update": int32(NebulaMeta_HostUpdateNotification), "t_host_moved": int32(NebulaMeta_HostMovedNotification),
	"t_host_punch": int32(NebulaMeta_HostPunchNotification), "t_host_whoami": int32(NebulaMeta_HostWhoami),
	"t_host_whoami_reply": int32(NebulaMeta_HostWhoamiReply), "t_path_check": int32(NebulaMeta_PathCheck),
	"t_path_check_reply": int32(NebulaMeta_PathCheckReply), "t_host_update_ack": int32(NebulaMeta_HostUpdateNotificationAck),
}

// VerifC35Msg is a NebulaMeta message as decoded fields.
type VerifC35Msg struct {
	Type       uint32 // uint32(int32(NebulaMeta.Type))
	HasDetails bool
	Old        uint32
	Vpn        *[2]uint64
	V4         [][2]uint32
	V6         [][3]uint64
	ORelay     []uint32
	Relay      [][2]uint64
	Counter    uint32
}

func VerifC35Marshal(m VerifC35Msg) []byte {
	n := &NebulaMeta{Type: NebulaMeta_MessageType(int32(m.Type))}
	if m.HasDetails {
		d := &NebulaMetaDetails{OldVpnAddr: m.Old, Counter: m.Counter}
		if m.Vpn != nil {
			d.VpnAddr = &Addr{Hi: m.Vpn[0], Lo: m.Vpn[1]}
		}
		for _, e := range m.V4 {
			d.V4AddrPorts = append(d.V4AddrPorts, &V4AddrPort{Addr: e[0], Port: e[1]})
		}
		for _, e := range m.V6 {
			d.V6AddrPorts = append(d.V6AddrPorts, &V6AddrPort{Hi: e[0], Lo: e[1], Port: uint32(e[2])})
		}
		d.OldRelayVpnAddrs = append(d.OldRelayVpnAddrs, m.ORelay...)
		for _, e := range m.Relay {
			d.RelayVpnAddrs = append(d.RelayVpnAddrs, &Addr{Hi: e[0], Lo: e[1]})
		}
		n.Details = d
	}
	b, err := n.Marshal()
	if err != nil {
		panic(err)
	}
	return b
}

// VerifC35Unmarshal decodes with the real generated Unmarshal into a fresh message.
func VerifC35Unmarshal(p []byte) (VerifC35Msg, bool) {
	n := &NebulaMeta{}
	if err := n.Unmarshal(p); err != nil {
		return VerifC35Msg{}, false
	}
	m := VerifC35Msg{Type: uint32(int32(n.Type))}
	if d := n.Details; d != nil {
		m.HasDetails = true
		m.Old = d.OldVpnAddr
		m.Counter = d.Counter
		if d.VpnAddr != nil {
			m.Vpn = &[2]uint64{d.VpnAddr.Hi, d.VpnAddr.Lo}
		}
		for _, e := range d.V4AddrPorts {
			if e == nil {
				e = &V4AddrPort{}
			}
			m.V4 = append(m.V4, [2]uint32{e.Addr, e.Port})
		}
		for _, e := range d.V6AddrPorts {
			if e == nil {
				e = &V6AddrPort{}
			}
			m.V6 = append(m.V6, [3]uint64{e.Hi, e.Lo, uint64(e.Port)})
		}
		m.ORelay = append(m.ORelay, d.OldRelayVpnAddrs...)
		for _, e := range d.RelayVpnAddrs {
			if e == nil {
				e = &Addr{}
			}
			m.Relay = append(m.Relay, [2]uint64{e.Hi, e.Lo})
		}
	}
	return m, true
}

type VerifC35Cfg struct {
	AmLighthouse bool
	Lighthouses  []netip.Addr   // lighthouse.hosts (each gets a static_host_map entry, as the config requires)
	MyNetworks   []netip.Prefix // the node's certificate networks (address + prefix length)
	InitV1       bool           // CertState.initiatingVersion == Version1
	Respond      bool           // punchy.respond
	StaticHosts  []netip.Addr   // further static_host_map entries (hosts that a later reload may name as lighthouses)
}

type VerifC35Send struct {
	Dest    netip.Addr
	T       uint8
	St      uint8
	Msg     VerifC35Msg
	Decoded bool
}

type VerifC35Punch struct {
	Target netip.AddrPort // invalid for a "respond" job
	Vpn    netip.Addr
}

type VerifC35Entry struct {
	Owner netip.Addr
	L4    *[2]uint32
	L6    *[3]uint64
	V4    [][2]uint32
	V6    [][3]uint64
	Relay []netip.Addr
}

type VerifC35Rec struct {
	ID    uint64
	Addrs []netip.Addr
	Cache []VerifC35Entry
}

type VerifC35Key struct {
	Addr netip.Addr
	ID   uint64
}

type VerifC35Dump struct {
	Keys []VerifC35Key
	Recs []VerifC35Rec
}

type verifC35Writer struct {
	sends []VerifC35Send
	cs    *CertState
}

func (w *verifC35Writer) SendVia(*HostInfo, *Relay, []byte, []byte, []byte, bool, int) {}
func (w *verifC35Writer) Handshake(netip.Addr)                                         {}
func (w *verifC35Writer) GetHostInfo(netip.Addr) *HostInfo                             { return nil }
func (w *verifC35Writer) GetCertState() *CertState                                     { return w.cs }
func (w *verifC35Writer) SendMessageToHostInfo(t header.MessageType, st header.MessageSubType, hi *HostInfo, p, _, _ []byte) {
	m, ok := VerifC35Unmarshal(p)
	d := netip.Addr{}
	if hi != nil && len(hi.vpnAddrs) > 0 {
		d = hi.vpnAddrs[0]
	}
	w.sends = append(w.sends, VerifC35Send{Dest: d, T: uint8(t), St: uint8(st), Msg: m, Decoded: ok})
}
func (w *verifC35Writer) SendMessageToVpnAddr(t header.MessageType, st header.MessageSubType, a netip.Addr, p, _, _ []byte) {
	m, ok := VerifC35Unmarshal(p)
	w.sends = append(w.sends, VerifC35Send{Dest: a, T: uint8(t), St: uint8(st), Msg: m, Decoded: ok})
}

type VerifC35 struct {
	lh     *LightHouse
	lhh    *LightHouseHandler
	w      *verifC35Writer
	p      *Punchy
	items  []*schedItem[holepunchJob]
	ids    map[*RemoteList]uint64
	cancel context.CancelFunc
	c      *config.C
	cfg    VerifC35Cfg
	static map[string]any
}

const VerifC35HeaderType = uint8(header.LightHouse)

func VerifNewC35(cfg VerifC35Cfg) (*VerifC35, error) {
	l := slog.New(slog.DiscardHandler)
	c := config.NewC(l)
	static := map[string]any{}
	hosts := []any{}
	for i, a := range cfg.Lighthouses {
		static[a.String()] = []any{fmt.Sprintf("192.0.2.%d:4242", 1+i%250)}
		hosts = append(hosts, a.String())
	}
	for i, a := range cfg.StaticHosts {
		if _, ok := static[a.String()]; !ok {
			static[a.String()] = []any{fmt.Sprintf("192.0.2.%d:4242", 100+i%100)}
		}
	}
	c.Settings["static_host_map"] = static
	c.Settings["lighthouse"] = map[string]any{"am_lighthouse": cfg.AmLighthouse, "hosts": hosts}
	c.Settings["listen"] = map[string]any{"port": 4242}
	c.Settings["punchy"] = map[string]any{"punch": true, "respond": cfg.Respond, "delay": "10h", "respond_delay": "10h"}

	nt := new(bart.Lite)
	for _, p := range cfg.MyNetworks {
		nt.Insert(p)
	}
	iv := cert.Version2
	if cfg.InitV1 {
		iv = cert.Version1
	}
	cs := &CertState{myVpnNetworks: cfg.MyNetworks, myVpnNetworksTable: nt, initiatingVersion: iv}

	v := &VerifC35{ids: map[*RemoteList]uint64{}}
	p := NewPunchyFromConfig(l, c, &udp.NoopConn{})
	// The scheduler worker is not started: every job handed to Punchy.Schedule/ScheduleRespond is captured at the
	// moment Scheduler.Schedule takes its item from the pool (the delay is 10 h, so no timer fires during a run).
	p.ctx = context.Background()
	sched := p.sched
	sched.pool.New = func() any {
		si := &schedItem[holepunchJob]{s: sched}
		si.fire = func() {}
		v.items = append(v.items, si)
		return si
	}
	ctx, cancel := context.WithCancel(context.Background())
	lh, err := NewLightHouseFromConfig(ctx, l, c, cs, nil, p)
	if err != nil {
		cancel()
		return nil, err
	}
	w := &verifC35Writer{cs: cs}
	lh.ifce = w
	v.lh, v.lhh, v.w, v.p, v.cancel = lh, lh.NewRequestHandler(), w, p, cancel
	v.c, v.cfg, v.static = c, cfg, static
	return v, nil
}

func (v *VerifC35) Close() { v.cancel() }

// ReloadLighthouses is a configuration reload that changes only lighthouse.hosts: config.ReloadConfigString with the
// same settings otherwise, which runs the reload callbacks NewLightHouseFromConfig / NewPunchyFromConfig registered
// (the real LightHouse.reload(c, false)).
func (v *VerifC35) ReloadLighthouses(lhs []netip.Addr) error {
	var sb strings.Builder
	sb.WriteString("static_host_map:\n")
	keys := make([]string, 0, len(v.static))
	for k := range v.static {
		keys = append(keys, k)
	}
	sort.Strings(keys)
	for _, k := range keys {
		fmt.Fprintf(&sb, "  %q: [%q]\n", k, v.static[k].([]any)[0].(string))
	}
	fmt.Fprintf(&sb, "lighthouse:\n  am_lighthouse: %v\n  hosts: [", v.cfg.AmLighthouse)
	for i, a := range lhs {
		if i > 0 {
			sb.WriteString(", ")
		}
		fmt.Fprintf(&sb, "%q", a.String())
	}
	fmt.Fprintf(&sb, "]\nlisten:\n  port: 4242\npunchy:\n  punch: true\n  respond: %v\n  delay: 10h\n  respond_delay: 10h\n", v.cfg.Respond)
	return v.c.ReloadConfigString(sb.String())
}

// Lighthouses is the list in force (LightHouse.GetLighthouses).
func (v *VerifC35) Lighthouses() []netip.Addr {
	return append([]netip.Addr(nil), v.lh.GetLighthouses()...)
}

// Handle runs the real HandleRequest. A panic is reported as an observation.
func (v *VerifC35) Handle(rAddr netip.AddrPort, from []netip.Addr, p []byte) (sends []VerifC35Send, punches []VerifC35Punch, panicked string) {
	v.w.sends = nil
	v.items = nil
	func() {
		defer func() {
			if r := recover(); r != nil {
				panicked = fmt.Sprint(r)
			}
		}()
		v.lhh.HandleRequest(rAddr, from, p, v.w)
	}()
	for _, si := range v.items {
		punches = append(punches, VerifC35Punch{Target: si.val.target, Vpn: si.val.vpnAddr})
		if si.timer != nil {
			si.timer.Stop()
		}
	}
	v.items = nil
	return v.w.sends, punches, panicked
}

// Learn is what a completed handshake does: hostinfo.remotes = lh.QueryCache(vpnAddrs); remotes.LearnRemote(vpnAddrs[0], remote).
func (v *VerifC35) Learn(from []netip.Addr, remote netip.AddrPort) {
	v.lh.QueryCache(from).LearnRemote(from[0], remote)
}

func (v *VerifC35) IsAnyLighthouse(from []netip.Addr) bool { return v.lh.IsAnyLighthouseAddr(from) }

// Dump returns addrMap canonically: keys sorted, records numbered in order of first appearance.
func (v *VerifC35) Dump() VerifC35Dump {
	lh := v.lh
	lh.RLock()
	defer lh.RUnlock()
	keys := make([]netip.Addr, 0, len(lh.addrMap))
	for k := range lh.addrMap {
		keys = append(keys, k)
	}
	sort.Slice(keys, func(i, j int) bool { return keys[i].Less(keys[j]) })
	// new records get ids in a deterministic order: by their smallest key
	for _, k := range keys {
		rl := lh.addrMap[k]
		if _, ok := v.ids[rl]; !ok {
			v.ids[rl] = uint64(len(v.ids))
		}
	}
	d := VerifC35Dump{}
	seen := map[*RemoteList]bool{}
	for _, k := range keys {
		rl := lh.addrMap[k]
		d.Keys = append(d.Keys, VerifC35Key{Addr: k, ID: v.ids[rl]})
		if seen[rl] {
			continue
		}
		seen[rl] = true
		rl.RLock()
		rec := VerifC35Rec{ID: v.ids[rl], Addrs: append([]netip.Addr{}, rl.vpnAddrs...)}
		owners := make([]netip.Addr, 0, len(rl.cache))
		for o := range rl.cache {
			owners = append(owners, o)
		}
		sort.Slice(owners, func(i, j int) bool { return owners[i].Less(owners[j]) })
		for _, o := range owners {
			c := rl.cache[o]
			e := VerifC35Entry{Owner: o}
			if c.v4 != nil {
				if c.v4.learned != nil {
					e.L4 = &[2]uint32{c.v4.learned.Addr, c.v4.learned.Port}
				}
				for _, x := range c.v4.reported {
					e.V4 = append(e.V4, [2]uint32{x.Addr, x.Port})
				}
			}
			if c.v6 != nil {
				if c.v6.learned != nil {
					e.L6 = &[3]uint64{c.v6.learned.Hi, c.v6.learned.Lo, uint64(c.v6.learned.Port)}
				}
				for _, x := range c.v6.reported {
					e.V6 = append(e.V6, [3]uint64{x.Hi, x.Lo, uint64(x.Port)})
				}
			}
			if c.relay != nil {
				e.Relay = append(e.Relay, c.relay.relay...)
			}
			rec.Cache = append(rec.Cache, e)
		}
		rl.RUnlock()
		d.Recs = append(d.Recs, rec)
	}
	sort.Slice(d.Recs, func(i, j int) bool { return d.Recs[i].ID < d.Recs[j].ID })
	return d
}

//go:build verif && (comp_all || comp_wheel)

package nebula

import "time"

// VerifWheel drives a TimerWheel[uint64] (or a LockingTimerWheel[uint64]) with explicit instants for the
// verification harness. Instants are nanoseconds since the Unix epoch, built with time.Unix(0, ns): such a
// time.Time has no monotonic reading, so Advance sees exactly ns differences.
type VerifWheel struct {
	tw *TimerWheel[uint64]
	lw *LockingTimerWheel[uint64]
}

const VerifTimerCacheMax = timerCacheMax

func VerifNewWheel(min, max time.Duration, locking bool) *VerifWheel {
	if locking {
		lw := NewLockingTimerWheel[uint64](min, max)
		return &VerifWheel{lw: lw, tw: lw.t}
	}
	return &VerifWheel{tw: NewTimerWheel[uint64](min, max)}
}

func (w *VerifWheel) Add(v uint64, timeout time.Duration) {
	if w.lw != nil {
		w.lw.Add(v, timeout)
		return
	}
	w.tw.Add(v, timeout)
}

func (w *VerifWheel) Advance(ns int64) {
	now := time.Unix(0, ns)
	if w.lw != nil {
		w.lw.Advance(now)
		return
	}
	w.tw.Advance(now)
}

func (w *VerifWheel) Purge() (uint64, bool) {
	if w.lw != nil {
		return w.lw.Purge()
	}
	return w.tw.Purge()
}

// VerifCached reports how many list cells sit in the recycling cache (used only to confirm that the
// harness really overflows the cache; never compared with the model).
func (w *VerifWheel) VerifCached() int { return w.tw.itemsCached }

//go:build verif && (comp_all || comp_reject)

package nebula

import (
	"io"
	"log/slog"
	"net/netip"
	"sync"

	"github.com/slackhq/nebula/overlay/tio"
	"github.com/slackhq/nebula/udp"
)

// The callers of iputil.CreateRejectPacket: Interface.rejectInside (reply written to the tun queue) and
// Interface.rejectOutside (reply encrypted into the tunnel). This file holds no reject logic: it builds the smallest
// Interface those two methods run on and records what they emit.

// verifRejQueue is a tio.Queue that records every packet written to the tun.
type verifRejQueue struct{ writes [][]byte }

func (q *verifRejQueue) Read() ([]tio.Packet, error) { return nil, io.EOF }
func (q *verifRejQueue) Close() error                 { return nil }
func (q *verifRejQueue) Write(p []byte) (int, error) {
	q.writes = append(q.writes, append([]byte{}, p...))
	return len(p), nil
}

// verifRejCipher is a noiseutil.CipherState that records the plaintext it is asked to encrypt (the reply handed to
// the tunnel) and appends it unencrypted.
type verifRejCipher struct{ plains [][]byte }

func (c *verifRejCipher) EncryptDanger(out, ad, plaintext []byte, n uint64, nb []byte) ([]byte, error) {
	c.plains = append(c.plains, append([]byte{}, plaintext...))
	return append(out, plaintext...), nil
}
func (c *verifRejCipher) DecryptDanger(out, ad, ciphertext []byte, n uint64, nb []byte) ([]byte, error) {
	return append(out, ciphertext...), nil
}
func (c *verifRejCipher) Overhead() int { return 0 }

// verifRejConn counts the datagrams sent on the underlay.
type verifRejConn struct {
	udp.NoopConn
	sent int
}

func (c *verifRejConn) WriteTo(b []byte, addr netip.AddrPort) error {
	c.sent++
	return nil
}

type VerifRejectRig struct {
	f      *Interface
	hi     *HostInfo
	queue  *verifRejQueue
	cipher *verifRejCipher
	conn   *verifRejConn
}

func VerifNewRejectRig() *VerifRejectRig {
	l := slog.New(slog.DiscardHandler)
	r := &VerifRejectRig{queue: &verifRejQueue{}, cipher: &verifRejCipher{}, conn: &verifRejConn{}}
	cs := &ConnectionState{eKey: r.cipher, window: NewBits(ReplayWindow)}
	r.hi = &HostInfo{
		ConnectionState: cs,
		vpnAddrs:        []netip.Addr{netip.MustParseAddr("10.21.0.2")},
		remoteIndexId:   0x21212121,
		localIndexId:    0x12121212,
	}
	remote := netip.MustParseAddrPort("192.0.2.21:4242")
	r.hi.remote.Store(&remote)
	r.f = &Interface{
		l:        l,
		firewall: &Firewall{InboundSendReject: true, OutboundSendReject: true},
		queues:   []tio.Queue{r.queue},
		writers:  []udp.Conn{r.conn},
		connectionManager: &connectionManager{
			relayUsed:     map[uint32]struct{}{},
			relayUsedLock: &sync.RWMutex{},
			l:             l,
		},
	}
	return r
}

// VerifRejectInside runs the real rejectInside with a reject buffer of bufLen bytes (interface.go: make([]byte, mtu))
// and returns the packets written to the tun.
func (r *VerifRejectRig) VerifRejectInside(packet []byte, bufLen int) [][]byte {
	r.queue.writes = nil
	r.f.rejectInside(packet, make([]byte, bufLen), 0)
	return r.queue.writes
}

// VerifRejectOutside runs the real rejectOutside with a scratch buffer of bufLen bytes (rxContext.scratch:
// make([]byte, mtu)) and returns the plaintexts handed to the tunnel cipher and the number of datagrams sent.
func (r *VerifRejectRig) VerifRejectOutside(packet []byte, bufLen int) ([][]byte, int) {
	r.cipher.plains = nil
	r.conn.sent = 0
	r.f.rejectOutside(packet, r.hi.ConnectionState, r.hi, make([]byte, 12), make([]byte, bufLen), 0)
	return r.cipher.plains, r.conn.sent
}

//go:build verif && (comp_all || comp_cpupick) && linux

package cpupick

// Shims for the C46 correspondence (harness component cpupick): they only forward to the unexported
// functions of this package and copy their results out.

// VerifConsts returns capacityKeepPct and freqKeepPct.
func VerifConsts() (capPct, freqPct int) { return capacityKeepPct, freqKeepPct }

// VerifParseCPUList runs parseCPUList; ok is false when it returned an error.
func VerifParseCPUList(s string) (cpus []int, ok bool) {
	l, err := parseCPUList(s)
	if err != nil {
		return nil, false
	}
	return l, true
}

func VerifSplitmix64(x uint64) uint64 { return splitmix64(x) }

func VerifPickCandidates(allowed, perf []int, routines int) []int {
	return pickCandidates(allowed, perf, routines)
}

// VerifArrange runs arrange on a topology built from the given maps (which it copies, so that two calls
// never share a map).
func VerifArrange(cands []int, nodeOf, coreOf map[int]int, zeroCore, routines int, h uint64) (out []int, panicked bool) {
	defer func() {
		if r := recover(); r != nil {
			out, panicked = nil, true
		}
	}()
	t := topology{nodeOf: make(map[int]int, len(nodeOf)), coreOf: make(map[int]int, len(coreOf)), zeroCore: zeroCore}
	for k, v := range nodeOf {
		t.nodeOf[k] = v
	}
	for k, v := range coreOf {
		t.coreOf[k] = v
	}
	in := append([]int(nil), cands...)
	res := arrange(in, t, routines, h)
	return append([]int{}, res...), false
}

func VerifFlatTopology(cpus []int) (nodeOf, coreOf map[int]int, zeroCore int) {
	t := flatTopology(cpus)
	return t.nodeOf, t.coreOf, t.zeroCore
}

func VerifPerfCPUsFrom(cpuDir, intelCoreMask string, allowed []int) []int {
	l, _ := perfCPUsFrom(cpuDir, intelCoreMask, append([]int(nil), allowed...))
	return append([]int{}, l...)
}

func VerifReadTopologyFrom(nodeDir, cpuDir string, cpus []int) (nodeOf, coreOf map[int]int, zeroCore int) {
	t := readTopologyFrom(nodeDir, cpuDir, cpus)
	return t.nodeOf, t.coreOf, t.zeroCore
}

// VerifPerfCPUs and VerifReadTopology consult the real sysfs of this machine, as Default does.
func VerifPerfCPUs(allowed []int) []int {
	l, _ := perfCPUs(append([]int(nil), allowed...))
	return append([]int{}, l...)
}

func VerifReadTopology(cpus []int) (nodeOf, coreOf map[int]int, zeroCore int) {
	t := readTopology(cpus)
	return t.nodeOf, t.coreOf, t.zeroCore
}

//go:build verif && (comp_all || comp_certcodec || comp_certtamper)

package cert

import "fmt"

// VerifCodecUnmarshalV1 is unmarshalCertificateV1 (the decoder behind PEM blocks with the v1 banner and behind
// Recombine for versions 0 and 1).
func VerifCodecUnmarshalV1(b, publicKey []byte) (Certificate, error) {
	c, err := unmarshalCertificateV1(b, publicKey)
	if err != nil {
		return nil, err
	}
	return c, nil
}

// VerifCodecUnmarshalV2 is unmarshalCertificateV2.
func VerifCodecUnmarshalV2(b, publicKey []byte, curve Curve) (Certificate, error) {
	c, err := unmarshalCertificateV2(b, publicKey, curve)
	if err != nil {
		return nil, err
	}
	return c, nil
}

// VerifCodecRawDetails returns the DER bytes a v2 certificate keeps of its details (nil for other versions).
func VerifCodecRawDetails(c Certificate) []byte {
	if v, ok := c.(*certificateV2); ok {
		return v.rawDetails
	}
	return nil
}

// VerifCodecIssue is a copy of the tail of SignWith (fromTBSCertificate incl. validate, marshalForSigning, sp,
// setSignature) with a caller-chosen issuer string and WITHOUT SignWith's guards (CA flag, constraints, size of the
// result). The harness uses it only to learn how long a certificate that SignWith refused would have been.
func VerifCodecIssue(t *TBSCertificate, issuer string, sp SignerLambda) (Certificate, error) {
	tt := *t
	tt.issuer = issuer
	var c beingSignedCertificate
	switch tt.Version {
	case Version1:
		c = &certificateV1{}
	case Version2:
		c = &certificateV2{}
	default:
		return nil, fmt.Errorf("unknown cert version %d", tt.Version)
	}
	if err := c.fromTBSCertificate(&tt); err != nil {
		return nil, err
	}
	b, err := c.marshalForSigning()
	if err != nil {
		return nil, err
	}
	sig, err := sp(b)
	if err != nil {
		return nil, err
	}
	if err := c.setSignature(sig); err != nil {
		return nil, err
	}
	return c.(Certificate), nil
}

// VerifCodecWithSignature returns a copy of c carrying another signature (what an attacker who re-encodes a
// certificate with the low/high-S twin of its signature, or with any other bytes, ends up presenting).
func VerifCodecWithSignature(c Certificate, sig []byte) (Certificate, error) {
	nc := c.Copy()
	var err error
	switch v := nc.(type) {
	case *certificateV1:
		err = v.setSignature(sig)
	case *certificateV2:
		err = v.setSignature(sig)
	default:
		err = ErrUnknownVersion
	}
	if err != nil {
		return nil, err
	}
	return nc, nil
}

//go:build verif && (comp_all || comp_certverify || comp_certsign)

package cert

import (
	"fmt"

	"github.com/slackhq/nebula/cert/p256"
)

// VerifIssue seals t exactly the way the tail of SignWith does (fromTBSCertificate incl. validate,
// marshalForSigning, sp, setSignature) but WITHOUT SignWith's guards (key curve, CA/self-sign flags,
// checkCAConstraints) and with a caller-chosen issuer string. It lets the harness hand the verifier
// certificates a well-behaved signer would never have issued. sigForm: 0 = signature as produced by sp,
// 1 = p256.Normalize (low-S), 2 = the opposite (high-S) form.
func VerifIssue(t *TBSCertificate, issuer string, sp SignerLambda, sigForm int) (Certificate, error) {
	tt := *t
	tt.issuer = issuer
	var c beingSignedCertificate
	switch tt.Version {
	case Version1:
		c = &certificateV1{}
	case Version2:
		c = &certificateV2{}
	default:
		return nil, fmt.Errorf("unknown cert version %d", tt.Version)
	}
	if err := c.fromTBSCertificate(&tt); err != nil {
		return nil, err
	}
	b, err := c.marshalForSigning()
	if err != nil {
		return nil, err
	}
	sig, err := sp(b)
	if err != nil {
		return nil, err
	}
	switch sigForm {
	case 1:
		if sig, err = p256.Normalize(sig); err != nil {
			return nil, err
		}
	case 2:
		if sig, err = p256.Normalize(sig); err != nil {
			return nil, err
		}
		if sig, err = p256.Swap(sig); err != nil {
			return nil, err
		}
	}
	if err := c.setSignature(sig); err != nil {
		return nil, err
	}
	return c.(Certificate), nil
}

// VerifWithSignature returns a copy of c that carries sig as its signature (nothing else changes; for v2 the raw
// details bytes are kept). The harness uses it to build the other S form of a P-256 certificate on its own.
func VerifWithSignature(c Certificate, sig []byte) (Certificate, error) {
	nc := c.Copy()
	var err error
	switch v := nc.(type) {
	case *certificateV1:
		err = v.setSignature(sig)
	case *certificateV2:
		err = v.setSignature(sig)
	default:
		err = ErrUnknownVersion
	}
	return nc, err
}

// VerifCachedInternals exposes the unexported fields of a CachedCertificate.
func VerifCachedInternals(cc *CachedCertificate) (signerFp, fp2 string) {
	return cc.signerFingerprint, cc.fingerprint2
}

// VerifBlocklist returns the current blocklist entries.
func VerifBlocklist(p *CAPool) []string {
	out := make([]string, 0, len(p.certBlocklist))
	for k := range p.certBlocklist {
		out = append(out, k)
	}
	return out
}

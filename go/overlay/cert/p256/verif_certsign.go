//go:build verif && (comp_all || comp_certverify || comp_certsign)

package p256

import "math/big"

// VerifHalfN returns the package's low-S threshold, VerifN the modulus the swap is computed in.
func VerifHalfN() *big.Int { return new(big.Int).Set(halfN) }
func VerifN() *big.Int     { return new(big.Int).SetBytes(nMod.Nat().Bytes(nMod)) }

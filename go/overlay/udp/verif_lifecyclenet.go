//go:build verif && e2e_testing && (comp_all || comp_lifecyclenet)

package udp

// VerifLifeClosed reports whether Close ran on the in-memory socket.
func VerifLifeClosed(c Conn) bool {
	tc := c.(*TesterConn)
	select {
	case <-tc.done:
		return true
	default:
		return false
	}
}

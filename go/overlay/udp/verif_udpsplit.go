//go:build verif && (comp_all || comp_udpsplit) && linux && !android && !e2e_testing

package udp

import (
	"encoding/binary"
	"net/netip"
	"unsafe"

	"golang.org/x/sys/unix"
)

// VerifDeliverSegments runs deliverSegments and returns a copy of every piece handed to the callback, in
// call order. aliasOK reports that every non-empty piece is a sub-slice of payload at the running offset
// (no copy, no overlap) and that the callback always got the given address.
func VerifDeliverSegments(payload []byte, segSize int) (pieces [][]byte, aliasOK bool, panicked bool) {
	from := netip.MustParseAddrPort("192.0.2.1:4242")
	aliasOK = true
	defer func() {
		if r := recover(); r != nil {
			panicked = true
		}
	}()
	off := 0
	deliverSegments(func(a netip.AddrPort, seg []byte) {
		if len(pieces) > len(payload)+2 {
			panic("verif: deliverSegments does not terminate") // reported as an observation (panicked)
		}
		if a != from {
			aliasOK = false
		}
		if len(seg) > 0 && (off >= len(payload) || &seg[0] != &payload[off]) {
			aliasOK = false
		}
		off += len(seg)
		pieces = append(pieces, append([]byte(nil), seg...))
	}, from, payload, segSize)
	return
}

// VerifParseRecvCmsg runs parseRecvCmsg on a msghdr whose control buffer is exactly buf (length and
// capacity len(buf), allocated on its own so that the runtime's bounds checks see the true extent).
func VerifParseRecvCmsg(buf []byte) (gso int, panicked bool) {
	defer func() {
		if r := recover(); r != nil {
			panicked = true
		}
	}()
	var hdr msghdr
	if len(buf) > 0 {
		own := make([]byte, len(buf))
		copy(own, buf)
		hdr.Control = &own[0]
	}
	setMsgControllen(&hdr, len(buf))
	gso = parseRecvCmsg(&hdr)
	return
}

// VerifUdpSplitConsts returns the layout constants parseRecvCmsg depends on, as compiled in.
func VerifUdpSplitConsts() map[string]uint64 {
	var h unix.Cmsghdr
	le := uint64(0)
	if binary.NativeEndian.Uint16([]byte{1, 0}) == 1 {
		le = 1
	}
	return map[string]uint64{
		"us_sizeof_cmsghdr": uint64(unix.SizeofCmsghdr),
		"us_cmsg_len0":      uint64(unix.CmsgLen(0)),
		"us_align":          uint64(unix.CmsgSpace(1) - unix.CmsgLen(0)),
		"us_len_width":      uint64(unsafe.Sizeof(h.Len)),
		"us_level_off":      uint64(unsafe.Offsetof(h.Level)),
		"us_level_width":    uint64(unsafe.Sizeof(h.Level)),
		"us_type_off":       uint64(unsafe.Offsetof(h.Type)),
		"us_type_width":     uint64(unsafe.Sizeof(h.Type)),
		"us_sol_udp":        uint64(unix.SOL_UDP),
		"us_udp_gro":        uint64(unix.UDP_GRO),
		"us_gro_payload":    uint64(udpGROCmsgPayload),
		"us_int_bits":       uint64(8 * unsafe.Sizeof(int(0))),
		"us_little_endian":  le,
	}
}

// VerifGROEnabled reports whether a listener returned by NewListener turned UDP_GRO on.
func VerifGROEnabled(c Conn) bool {
	u, ok := c.(*StdConn)
	return ok && u.groSupported
}

//go:build verif && (comp_all || comp_writebatch) && linux && !android && !e2e_testing

package udp

import (
	"encoding/binary"
	"fmt"
	"log/slog"
	"net"
	"net/netip"
	"unsafe"

	"golang.org/x/sys/unix"
)

// VerifWBEntry is one prepared mmsghdr slot as the kernel would see it, decoded from the iovecs, the sockaddr
// and the control buffer the slot points at (not from WriteBatch's own bookkeeping, except to tell
// zero-length packets apart, which carry no pointer).
type VerifWBEntry struct {
	Idx    []int          // per iovec: the index i with iovec == bufs[i] exactly (same base, same length); -1 if there is none
	Seg    int            // gso_size of the UDP_SEGMENT cmsg; -1 no control data; -2 malformed control data
	Addr   netip.AddrPort // decoded msg_name
	AddrOK bool
}

// VerifWBCall is one sendFn invocation on w.msgs[Start:Start+N]. Updates lists the slots in that range whose
// decoded content differs from what the same slot held the last time it was offered (every slot is decoded at
// every call; unchanged ones are not repeated).
type VerifWBCall struct {
	Start, N int
	Updates  []VerifWBUpdate
	Sent     int
	Errno    int
}

type VerifWBUpdate struct {
	Slot  int
	Entry VerifWBEntry
}

func verifWBSame(a, b VerifWBEntry) bool {
	if a.Seg != b.Seg || a.Addr != b.Addr || a.AddrOK != b.AddrOK || len(a.Idx) != len(b.Idx) {
		return false
	}
	for i := range a.Idx {
		if a.Idx[i] != b.Idx[i] {
			return false
		}
	}
	return true
}

// VerifWBOutcome is one scripted sendmmsg outcome; Sent is clamped to the number of entries offered.
type VerifWBOutcome struct {
	Sent  int
	Errno int
}

type VerifWBResult struct {
	Calls    []VerifWBCall
	Ret      int
	Err      bool
	GsoAfter bool
	Panic    string
}

// verifWBDecode decodes slot e of w.msgs as the kernel would see it; ident names the packet an iovec carries.
func verifWBDecode(w *batchWriter, e int, ident func(e, k int, iov iovec) int) VerifWBEntry {
	var ve VerifWBEntry
	hdr := &w.msgs[e].Hdr
	if hdr.Iov != nil {
		iovs := unsafe.Slice(hdr.Iov, int(hdr.Iovlen))
		for k, iov := range iovs {
			idx := ident(e, k, iov)
			ve.Idx = append(ve.Idx, idx)
		}
	}
	ve.Seg = -1
	if hdr.Control != nil && hdr.Controllen > 0 {
		ve.Seg = -2
		ctrl := unsafe.Slice(hdr.Control, int(hdr.Controllen))
		if len(ctrl) >= unix.CmsgLen(2) {
			ch := (*unix.Cmsghdr)(unsafe.Pointer(&ctrl[0]))
			if ch.Level == unix.SOL_UDP && ch.Type == unix.UDP_SEGMENT && int(ch.Len) == unix.CmsgLen(2) {
				ve.Seg = int(binary.NativeEndian.Uint16(ctrl[unix.CmsgLen(0):]))
			}
		}
	}
	if hdr.Name != nil && hdr.Namelen >= 8 {
		name := unsafe.Slice(hdr.Name, int(hdr.Namelen))
		port := binary.BigEndian.Uint16(name[2:4])
		switch fam := binary.NativeEndian.Uint16(name[0:2]); {
		case fam == unix.AF_INET && len(name) == unix.SizeofSockaddrInet4:
			ip, _ := netip.AddrFromSlice(name[4:8])
			ve.Addr, ve.AddrOK = netip.AddrPortFrom(ip, port), true
		case fam == unix.AF_INET6 && len(name) == unix.SizeofSockaddrInet6:
			ip, _ := netip.AddrFromSlice(name[8:24])
			ve.Addr, ve.AddrOK = netip.AddrPortFrom(ip, port), true
		}
	}
	return ve
}

// VerifWriteBatch builds a real batchWriter (no socket) with a scratch of capN entries and a scripted sendFn,
// runs WriteBatch and reports every sendFn invocation. After the script is used up every call answers
// (0, ENOBUFS): a per-entry rejection.
func VerifWriteBatch(isV4, gso bool, maxSegs, capN int, bufs [][]byte, addrs []netip.AddrPort, script []VerifWBOutcome) (res VerifWBResult) {
	return VerifWriteBatchK(isV4, gso, maxSegs, capN, bufs, addrs, script, 0)
}

// VerifGsoMaxSegments / VerifParseRelease expose the kernel-release gate prepareGSO uses for w.maxGSOSegments.
func VerifGsoMaxSegments(release string) int      { return gsoMaxSegments(release) }
func VerifParseRelease(release string) (int, int) { return parseRelease(release) }

// VerifWriteBatchK is VerifWriteBatch with a kernel that additionally refuses (EINVAL) every UDP_SEGMENT entry
// carrying more than kernelSegs segments (0: no such limit), the way udp_send_skb does: sendmmsg stops at that
// entry, reporting the entries before it, or the error if it is the first one.
func VerifWriteBatchK(isV4, gso bool, maxSegs, capN int, bufs [][]byte, addrs []netip.AddrPort, script []VerifWBOutcome, kernelSegs int) (res VerifWBResult) {
	w := &batchWriter{fd: -1, isV4: isV4, l: slog.New(slog.DiscardHandler)}
	w.gsoSupported = gso
	w.maxGSOSegments = maxSegs
	w.prepareWriteMessages(capN, true)

	byPtr := map[*byte]int{}
	for i, b := range bufs {
		if len(b) > 0 {
			byPtr[&b[0]] = i
		}
	}
	decode := func(e int) VerifWBEntry {
		return verifWBDecode(w, e, func(e, k int, iov iovec) int {
			idx := -1
			if iov.Len > 0 && iov.Base != nil {
				if j, ok := byPtr[iov.Base]; ok && int(iov.Len) == len(bufs[j]) {
					idx = j
				}
			} else if iov.Len == 0 {
				// an empty datagram has no pointer to recognise it by: take WriteBatch's word for the slot
				// and check that the packet there is indeed empty
				j := w.entryEnd[e] - w.entryPkts[e] + k
				if j >= 0 && j < len(bufs) && len(bufs[j]) == 0 {
					idx = j
				}
			}
			return idx
		})
	}

	last := map[int]VerifWBEntry{}
	w.sendFn = func(start, n int) (int, error) {
		k := len(res.Calls)
		if k > 100000 {
			panic("verif: more than 100000 sendFn calls")
		}
		item := VerifWBOutcome{Sent: 0, Errno: int(unix.ENOBUFS)}
		if k < len(script) {
			item = script[k]
		}
		sent := item.Sent
		if sent > n {
			sent = n
		}
		errno := item.Errno
		if kernelSegs > 0 {
			for j := 0; j < n && start+j < len(w.msgs); j++ {
				h := &w.msgs[start+j].Hdr
				if h.Control != nil && int(h.Iovlen) > kernelSegs {
					if j == 0 {
						if sent > 0 || errno == 0 {
							sent, errno = -1, int(unix.EINVAL)
						}
					} else if sent > j {
						sent = j
					}
					break
				}
			}
		}
		call := VerifWBCall{Start: start, N: n, Sent: sent, Errno: errno}
		for e := start; e < start+n && e < len(w.msgs); e++ {
			ve := decode(e)
			if old, ok := last[e]; !ok || !verifWBSame(old, ve) {
				call.Updates = append(call.Updates, VerifWBUpdate{Slot: e, Entry: ve})
				last[e] = ve
			}
		}
		res.Calls = append(res.Calls, call)
		if errno != 0 {
			return sent, &net.OpError{Op: "sendmmsg", Err: unix.Errno(errno)}
		}
		return sent, nil
	}

	defer func() {
		if r := recover(); r != nil {
			res.Panic = fmt.Sprint(r)
		}
		res.GsoAfter = w.gsoSupported
	}()
	n, err := w.WriteBatch(bufs, addrs)
	res.Ret, res.Err = n, err != nil
	return res
}

// VerifWriteBatchConsts returns the limits WriteBatch is compiled with.
func VerifWriteBatchConsts() map[string]uint64 {
	return map[string]uint64{
		"wb_max_gso_bytes":   maxGSOBytes,
		"wb_max_write_batch": MaxWriteBatch,
		"wb_segs_pre_6_9":    uint64(gsoMaxSegments("6.8.0-generic")),
		"wb_segs_6_9":        uint64(gsoMaxSegments("6.9.0")),
		"wb_eio":             uint64(unix.EIO),
		"wb_enobufs":         uint64(unix.ENOBUFS),
	}
}

// VerifWBBatch is one WriteBatch invocation seen at the udp.Conn boundary.
type VerifWBBatch struct {
	IDs   []int // per buffer passed in: the id stored in its first 8 bytes (-1: shorter than 8 bytes)
	Calls []VerifWBCall
	Ret   int
	Err   bool
}

// VerifWBWriter is a real batchWriter (no socket) with a scripted sendFn that lives across WriteBatch calls, for
// driving batch.SendBatch. Packets are identified by CONTENT: the little-endian uint64 in their first 8 bytes
// (what the kernel would put on the wire), so a datagram that is handed over twice is seen twice.
type VerifWBWriter struct {
	w       *batchWriter
	script  []VerifWBOutcome
	k       int
	Batches []VerifWBBatch
}

func verifWBContentID(b []byte) int {
	if len(b) < 8 {
		return -1
	}
	return int(binary.LittleEndian.Uint64(b[:8]))
}

func VerifNewWBWriter(isV4, gso bool, maxSegs, capN int, script []VerifWBOutcome) *VerifWBWriter {
	w := &batchWriter{fd: -1, isV4: isV4, l: slog.New(slog.DiscardHandler)}
	w.gsoSupported = gso
	w.maxGSOSegments = maxSegs
	w.prepareWriteMessages(capN, true)
	return &VerifWBWriter{w: w, script: script}
}

func (v *VerifWBWriter) GsoSupported() bool { return v.w.gsoSupported }

// WriteBatch makes VerifWBWriter usable as the `out` of batch.NewSendBatch.
func (v *VerifWBWriter) WriteBatch(bufs [][]byte, addrs []netip.AddrPort) (int, error) {
	w := v.w
	var b VerifWBBatch
	for _, buf := range bufs {
		b.IDs = append(b.IDs, verifWBContentID(buf))
	}
	last := map[int]VerifWBEntry{}
	w.sendFn = func(start, n int) (int, error) {
		if v.k > 100000 {
			panic("verif: more than 100000 sendFn calls")
		}
		item := VerifWBOutcome{Sent: 0, Errno: int(unix.ENOBUFS)}
		if v.k < len(v.script) {
			item = v.script[v.k]
		}
		v.k++
		sent := item.Sent
		if sent > n {
			sent = n
		}
		call := VerifWBCall{Start: start, N: n, Sent: sent, Errno: item.Errno}
		for e := start; e < start+n && e < len(w.msgs); e++ {
			ve := verifWBDecode(w, e, func(e, k int, iov iovec) int {
				if iov.Base == nil || iov.Len < 8 {
					return -1
				}
				return verifWBContentID(unsafe.Slice(iov.Base, int(iov.Len)))
			})
			if old, ok := last[e]; !ok || !verifWBSame(old, ve) {
				call.Updates = append(call.Updates, VerifWBUpdate{Slot: e, Entry: ve})
				last[e] = ve
			}
		}
		b.Calls = append(b.Calls, call)
		if item.Errno != 0 {
			return sent, &net.OpError{Op: "sendmmsg", Err: unix.Errno(item.Errno)}
		}
		return sent, nil
	}
	n, err := w.WriteBatch(bufs, addrs)
	b.Ret, b.Err = n, err != nil
	v.Batches = append(v.Batches, b)
	return n, err
}

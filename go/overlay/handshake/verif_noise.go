//go:build verif && (comp_all || comp_noise)

package handshake

// VerifPeerStatic returns the static key the peer presented in the Noise exchange (hs.PeerStatic()).
func (m *Machine) VerifPeerStatic() []byte { return m.hs.PeerStatic() }

// VerifHash returns a copy of the current handshake hash.
func (m *Machine) VerifHash() []byte { return append([]byte(nil), m.hs.ChannelBinding()...) }

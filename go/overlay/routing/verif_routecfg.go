//go:build verif && (comp_all || comp_routecfg)

package routing

// VerifGatewayWeight returns the configured weight of a gateway.
func VerifGatewayWeight(g Gateway) int { return g.weight }

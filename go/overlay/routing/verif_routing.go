//go:build verif && (comp_all || comp_routing)

package routing

import "github.com/slackhq/nebula/firewall"

// VerifHashPacket exposes the flow hash BalancePacket uses.
func VerifHashPacket(p *firewall.Packet) int { return hashPacket(p) }

//go:build verif && (comp_all || comp_segment) && linux && !android

package tio

// VerifDecodeRead runs the real decodeRead (virtio_net_hdr parsing, CheckValid, CorrectHdrLen,
// protoFromGSOType) on one tun read consisting of the 10-byte virtio_net_hdr vnet and the packet body.
// No file descriptor is involved: decodeRead only looks at readVnetScratch and rxBuf.
func VerifDecodeRead(vnet [10]byte, body []byte) (pkt Packet, err error) {
	r := &Offload{rxBuf: body}
	r.readVnetScratch = vnet
	if err = r.decodeRead(len(body)); err != nil {
		return Packet{}, err
	}
	return r.pending[0], nil
}

//go:build verif && (comp_all || comp_coalesce) && linux && !android

package tio

// VerifNewOffload builds the real tun Offload queue over an arbitrary file descriptor (the harness hands it one
// end of an AF_UNIX datagram socketpair, so every writev of Write / WriteGSO arrives as one message:
// virtio_net_hdr followed by the packet bytes, exactly what the tun device would be given).
func VerifNewOffload(fd int, uso bool) (*Offload, error) {
	return newOffload(fd, -1, uso, nil)
}

// VerifTioConsts returns the tio constants the geometry statement of C23 refers to.
func VerifTioConsts() map[string]uint64 {
	return map[string]uint64{
		"coal_tio_max_superpacket": maxSuperpacketLen,
		"coal_tio_max_iovs":        gsoMaxIovs,
	}
}

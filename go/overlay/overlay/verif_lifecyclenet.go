//go:build verif && e2e_testing && (comp_all || comp_lifecyclenet)

package overlay

import (
	"errors"
	"io"
	"log/slog"
	"net/netip"
	"os"
	"sync"
	"sync/atomic"

	"github.com/slackhq/nebula/config"
	"github.com/slackhq/nebula/overlay/tio"
	"github.com/slackhq/nebula/udp"
)

// VerifLifeTun is an in-memory tun for the lifecycle scenarios. Routes, networks and name come from the e2e
// TestTun; the packet channels are never closed (Close closes a done channel instead), so a writer racing Close
// gets an error instead of a panic - the same discipline udp.TesterConn follows.
type VerifLifeTun struct {
	*TestTun
	rx, tx       chan []byte
	done         chan struct{}
	once         sync.Once
	isClosed     atomic.Bool
	closes       atomic.Int32
	FailActivate bool
	delivered    atomic.Int64
}

func (t *VerifLifeTun) Activate() error {
	if t.FailActivate {
		return errors.New("verif: activate fails")
	}
	return nil
}

func (t *VerifLifeTun) Read(b []byte) (int, error) {
	select {
	case <-t.done:
		return 0, os.ErrClosed
	case p := <-t.rx:
		return copy(b, p), nil
	}
}

func (t *VerifLifeTun) Write(b []byte) (int, error) {
	p := make([]byte, len(b))
	copy(p, b)
	select {
	case <-t.done:
		return 0, io.ErrClosedPipe
	case t.tx <- p:
		t.delivered.Add(1)
		return len(b), nil
	}
}

func (t *VerifLifeTun) Close() error {
	t.closes.Add(1)
	t.once.Do(func() { t.isClosed.Store(true); close(t.done) })
	return nil
}

func (t *VerifLifeTun) Queues(int) ([]tio.Queue, error) {
	return []tio.Queue{tio.NewSingleQueue(t, udp.MTU)}, nil
}

// Send injects an inside packet; it gives up when the device is closed.
func (t *VerifLifeTun) Send(p []byte) {
	b := make([]byte, len(p))
	copy(b, p)
	select {
	case <-t.done:
	case t.rx <- b:
	}
}

// Tx is the channel of packets nebula wrote to the device.
func (t *VerifLifeTun) Tx() <-chan []byte   { return t.tx }
func (t *VerifLifeTun) Done() <-chan struct{} { return t.done }
func (t *VerifLifeTun) Delivered() int64    { return t.delivered.Load() }
func (t *VerifLifeTun) Closes() int         { return int(t.closes.Load()) }

// VerifLifeFactory returns a DeviceFactory for nebula.Main.
func VerifLifeFactory(failActivate bool) DeviceFactory {
	return func(c *config.C, l *slog.Logger, vpnNetworks []netip.Prefix, routines int) (Device, error) {
		d, err := NewDeviceFromConfig(c, l, vpnNetworks, routines)
		if err != nil {
			return nil, err
		}
		return &VerifLifeTun{TestTun: d.(*TestTun), rx: make(chan []byte, 16), tx: make(chan []byte, 16), done: make(chan struct{}),
			FailActivate: failActivate}, nil
	}
}

// VerifLifeTunClosed reports whether Close ran on the in-memory tun.
func VerifLifeTunClosed(d Device) bool {
	switch t := d.(type) {
	case *VerifLifeTun:
		return t.isClosed.Load()
	case *TestTun:
		return t.closed.Load()
	}
	return false
}

//go:build verif && (comp_all || comp_coalesce)

package batch

// VerifCoalesceConsts returns the constants the coalescers are compiled with (T1 for C23).
func VerifCoalesceConsts() map[string]uint64 {
	return map[string]uint64{
		"coal_tcp_max_segs": tcpCoalesceMaxSegs,
		"coal_udp_max_segs": udpCoalesceMaxSegs,
		"coal_tcp_buf":      tcpCoalesceBufSize,
		"coal_udp_buf":      udpCoalesceBufSize,
		"coal_proto_tcp":    ipProtoTCP,
		"coal_proto_udp":    ipProtoUDP,
		"coal_flag_psh":     tcpFlagPsh,
		"coal_flag_ack":     tcpFlagAck,
		"coal_flag_ece":     tcpFlagEce,
		"coal_ipv4_df":      ipv4FlagDF,
	}
}

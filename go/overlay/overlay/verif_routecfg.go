//go:build verif && (comp_all || comp_routecfg)

package overlay

import (
	"net/netip"

	"github.com/slackhq/nebula/config"
)

// VerifParseRoutes runs parseRoutes (tun.routes); a panic is recovered and reported.
func VerifParseRoutes(c *config.C, networks []netip.Prefix) (routes []Route, err error, panicked bool) {
	defer func() {
		if r := recover(); r != nil {
			routes, err, panicked = nil, nil, true
		}
	}()
	routes, err = parseRoutes(c, networks)
	return routes, err, false
}

// VerifParseUnsafeRoutes runs parseUnsafeRoutes (tun.unsafe_routes); a panic is recovered and reported.
func VerifParseUnsafeRoutes(c *config.C, networks []netip.Prefix) (routes []Route, err error, panicked bool) {
	defer func() {
		if r := recover(); r != nil {
			routes, err, panicked = nil, nil, true
		}
	}()
	routes, err = parseUnsafeRoutes(c, networks)
	return routes, err, false
}

//go:build verif && (comp_all || comp_csum)

package checksum

// VerifAccel returns the hand-written routine of this architecture, whether the running CPU can execute it,
// and its name, so the harness can call it directly, independent of what Checksum dispatches to.
func VerifAccel() (name string, available bool, fn func([]byte, uint16) uint16) {
	return "avx2", hasAVX2, checksumAVX2
}

//go:build verif && (comp_all || comp_csum) && !amd64

package checksum

// VerifAccel: no accelerated routine is modelled for this architecture.
func VerifAccel() (name string, available bool, fn func([]byte, uint16) uint16) {
	return "none", false, nil
}

//go:build verif && (comp_all || comp_csum)

package checksum

import gvisorchecksum "gvisor.dev/gvisor/pkg/tcpip/checksum"

// VerifChecksumGeneric is the pure-Go routine the dispatcher falls back to (gvisor's Checksum).
func VerifChecksumGeneric(buf []byte, initial uint16) uint16 {
	return gvisorchecksum.Checksum(buf, initial)
}

//go:build ignore

// Builds the protoc CodeGeneratorRequest for /repo/handshake/handshake.proto by hand (no protoc in this sandbox) so that
// protoc-gen-gogofaster (github.com/gogo/protobuf v1.3.2 from the module cache, the generator nebula.pb.go is made with)
// can emit the NebulaHandshake codec that nebula <= 1.9 carried in nebula.pb.go. Usage (scratch module with /verif/go/go.mod+go.sum):
//   go build -o protoc-gen-gogofaster github.com/gogo/protobuf/protoc-gen-gogofaster
//   go run mkreq.go > req.bin && ./protoc-gen-gogofaster < req.bin > resp.bin   (resp.bin is a CodeGeneratorResponse; file[0].content
//   is go/cmd/harness/c_payload_pb.go minus its first two lines)
package main

import (
	"os"

	"github.com/gogo/protobuf/proto"
	descriptor "github.com/gogo/protobuf/protoc-gen-gogo/descriptor"
	plugin "github.com/gogo/protobuf/protoc-gen-gogo/plugin"
)

func f(name string, num int32, t descriptor.FieldDescriptorProto_Type, typeName string, deprecated bool) *descriptor.FieldDescriptorProto {
	l := descriptor.FieldDescriptorProto_LABEL_OPTIONAL
	fd := &descriptor.FieldDescriptorProto{Name: proto.String(name), Number: proto.Int32(num), Label: &l, Type: &t, JsonName: proto.String(name)}
	if typeName != "" {
		fd.TypeName = proto.String(typeName)
	}
	if deprecated {
		fd.Options = &descriptor.FieldOptions{Deprecated: proto.Bool(true)}
	}
	return fd
}

func main() {
	fdp := &descriptor.FileDescriptorProto{
		Name:    proto.String("handshake.proto"),
		Package: proto.String("nebula.handshake"),
		Syntax:  proto.String("proto3"),
		Options: &descriptor.FileOptions{GoPackage: proto.String("verifharness/cmd/harness;main")},
		MessageType: []*descriptor.DescriptorProto{
			{Name: proto.String("NebulaHandshake"), Field: []*descriptor.FieldDescriptorProto{
				f("Details", 1, descriptor.FieldDescriptorProto_TYPE_MESSAGE, ".nebula.handshake.NebulaHandshakeDetails", false),
				f("Hmac", 2, descriptor.FieldDescriptorProto_TYPE_BYTES, "", false),
			}},
			{Name: proto.String("NebulaHandshakeDetails"), Field: []*descriptor.FieldDescriptorProto{
				f("Cert", 1, descriptor.FieldDescriptorProto_TYPE_BYTES, "", false),
				f("InitiatorIndex", 2, descriptor.FieldDescriptorProto_TYPE_UINT32, "", false),
				f("ResponderIndex", 3, descriptor.FieldDescriptorProto_TYPE_UINT32, "", false),
				f("Cookie", 4, descriptor.FieldDescriptorProto_TYPE_UINT64, "", true),
				f("Time", 5, descriptor.FieldDescriptorProto_TYPE_UINT64, "", false),
				f("CertVersion", 8, descriptor.FieldDescriptorProto_TYPE_UINT32, "", false),
			}, ReservedRange: []*descriptor.DescriptorProto_ReservedRange{{Start: proto.Int32(6), End: proto.Int32(8)}}},
		},
	}
	req := &plugin.CodeGeneratorRequest{FileToGenerate: []string{"handshake.proto"}, Parameter: proto.String("paths=source_relative"), ProtoFile: []*descriptor.FileDescriptorProto{fdp}}
	b, err := proto.Marshal(req)
	if err != nil {
		panic(err)
	}
	os.Stdout.Write(b)
}
